#!/usr/bin/env python3
"""Generate the derive type family for the Kani harness crate (DESIGN.md section 3.4).

Each member is a real `#[derive(Savefile)]` definition plus
  * an independent, version-aware reference encoder (`RefEnc`) written from the documented rules
    (fields in declaration order, present iff the version lies in the field's range; enum =
    variant index in the declared/derived width followed by the variant's fields),
  * a symbolic constructor (`Fam::sym`) covering every variant and all field values,
  * registry lines instantiating the generic harness bodies of src/family.rs.

The family is finite ("bounded over definitions"); every member is proved for all values.
Output: kani/harness/src/family_gen.rs and kani/harness/src/registry_family.rs (deterministic).
"""
import os
import sys

ROOT = os.path.dirname(os.path.dirname(os.path.abspath(__file__)))
OUT = os.path.join(ROOT, "kani", "harness", "src")

PRIMS = {
    "u8": "s.u8()", "i8": "s.i8()", "u16": "s.u16()", "i16": "s.i16()", "u32": "s.u32()", "i32": "s.i32()",
    "u64": "s.u64()", "i64": "s.i64()", "u128": "s.u128()", "i128": "s.i128()", "usize": "s.usize()",
    "isize": "s.isize()", "bool": "s.bool()", "char": "s.char()", "f32": "s.f32()", "f64": "s.f64()",
}


def sym_expr(ty, names):
    ty = ty.strip()
    if ty in PRIMS:
        return PRIMS[ty]
    if ty in names:
        return "<%s as Fam>::sym(s)" % ty
    if ty.startswith("Option<"):
        inner = ty[7:-1]
        return "if s.bool() { Some(%s) } else { None }" % sym_expr(inner, names)
    if ty.startswith("(") and ty.endswith(")"):
        parts = [p.strip() for p in ty[1:-1].split(",") if p.strip()]
        return "(" + ", ".join(sym_expr(p, names) for p in parts) + ("," if len(parts) == 1 else "") + ")"
    if ty.startswith("[") and ";" in ty:
        inner, n = ty[1:-1].split(";")
        return "[" + ", ".join(sym_expr(inner, names) for _ in range(int(n))) + "]"
    if ty.startswith("Box<"):
        return "Box::new(%s)" % sym_expr(ty[4:-1], names)
    if ty.startswith("Removed<"):
        return "Removed::new()"
    if ty.startswith("AbiRemoved<"):
        return "AbiRemoved::new()"
    if ty == "String":
        return "sym_string(s)"
    if ty.startswith("Vec<"):
        return "sym_vec(s, |s| %s)" % sym_expr(ty[4:-1], names)
    raise Exception("no sym for " + ty)


class F:
    def __init__(self, name, ty, vfrom=0, vto=None, default=None, default_fn=None, versions_as=None, attrs=None, fid=None, conv=None):
        self.name, self.ty, self.vfrom, self.vto = name, ty, vfrom, vto
        self.fid = fid or name
        self.conv = conv  # rust expression template converting an old value `{x}` to this field's type
        self.default, self.default_fn, self.versions_as = default, default_fn, versions_as
        self.attrs = attrs or []

    def attr_text(self):
        out = []
        if self.vfrom != 0 or self.vto is not None:
            if self.vto is None:
                out.append('#[savefile_versions = "%d.."]' % self.vfrom)
            else:
                out.append('#[savefile_versions = "%d..%d"]' % (self.vfrom, self.vto))
        if self.default is not None:
            out.append('#[savefile_default_val = "%s"]' % self.default)
        if self.default_fn is not None:
            out.append('#[savefile_default_fn = "%s"]' % self.default_fn)
        if self.versions_as is not None:
            out.append('#[savefile_versions_as = "%s"]' % self.versions_as)
        return " ".join(out + self.attrs)

    def present_cond(self):
        c = []
        if self.vfrom != 0:
            c.append("v >= %d" % self.vfrom)
        if self.vto is not None:
            c.append("v <= %d" % self.vto)
        return " && ".join(c) if c else None


class Struct:
    kind = "struct"

    def __init__(self, name, fields, repr=None, version=0, tuple_=False, tags=(), derive_extra=""):
        self.name, self.fields, self.repr, self.version, self.tuple, self.tags = name, fields, repr, version, tuple_, set(tags)
        self.derive_extra = derive_extra


class Enum:
    kind = "enum"

    def __init__(self, name, variants, repr=None, version=0, width=1, tags=()):
        # variants: list of (name, fields, explicit_discriminant or None, tuple_ bool, vfrom)
        self.name, self.variants, self.repr, self.version, self.width, self.tags = name, variants, repr, version, width, set(tags)


def V(name, fields=(), disc=None, tuple_=False, vfrom=0):
    return (name, list(fields), disc, tuple_, vfrom)


FAMILY = [
    # ---- plain structs -----------------------------------------------------------------
    Struct("SPlain", [F("a", "u8"), F("b", "u32")]),
    Struct("SPackedC", [F("a", "u32"), F("b", "u32")], repr="C", tags=["packed"]),
    Struct("SPadC", [F("a", "u8"), F("b", "u32")], repr="C"),
    Struct("SMixC", [F("a", "u8"), F("b", "u8"), F("c", "u16"), F("d", "u32")], repr="C", tags=["packed"]),
    Struct("SBoolChar", [F("a", "bool"), F("b", "char")], repr="C"),
    Struct("SFloat", [F("a", "f32"), F("b", "f64")], repr="C"),
    Struct("SNest", [F("x", "SPackedC"), F("y", "bool"), F("z", "Option<u16>")], tags=["novec"]),
    Struct("SNestC", [F("x", "SPackedC"), F("y", "SMixC")], repr="C", tags=["packed"]),
    Struct("STuple", [F("0", "u16"), F("1", "u8")], tuple_=True),
    Struct("SUnit", []),
    Struct("SArr", [F("a", "[u16;2]"), F("b", "(u8,u8)")]),
    Struct("SWide", [F("a", "u128"), F("b", "i64"), F("c", "usize")], repr="C", tags=["novec"]),
    Struct("SOneC", [F("a", "u64")], repr="C", tags=["packed"]),
    # ---- enums -------------------------------------------------------------------------
    Enum("EUnit", [V("A"), V("B"), V("C")]),
    Enum("EData", [V("A", [F("0", "u8")], tuple_=True), V("B", [F("x", "u16"), F("y", "u32")]), V("C")], tags=["novec"]),
    Enum("EReprU8", [V("A"), V("B"), V("C")], repr="u8", width=1),
    Enum("EReprU16", [V("A"), V("B")], repr="u16", width=2),
    Enum("EReprU32", [V("A"), V("B")], repr="u32", width=4),
    Enum("EExplicit", [V("A", disc=3), V("B", disc=7)], repr="u8", width=1, tags=["explicit_disc"]),
    Enum("EReprCData", [V("A", [F("0", "u8")], tuple_=True), V("B", [F("0", "u8")], tuple_=True)], repr="u8, C", width=1),
    Struct("SWithEnum", [F("e", "EExplicit"), F("n", "u8")], repr="C", tags=["explicit_disc"]),
    Struct("SWithEnumOk", [F("e", "EReprU8"), F("n", "u8")], repr="C"),
    # ---- members suggested by review of the derive's special paths -----------------------------
    # deferred same-alignment runs with rustc field reordering, struct not wholly packed
    Struct("SDeferred", [F("a", "u8"), F("b", "u8"), F("flag", "bool"), F("k", "EUnit")], tags=["novec"]),
    Struct("SDeferred2", [F("a", "bool"), F("b", "bool"), F("c", "u8"), F("d", "u8"), F("e", "bool"), F("f", "bool"),
                          F("g", "u8"), F("h", "u8"), F("k", "EUnit")], tags=["novec"]),
    # a non-packed first field, then a run of same-alignment primitives that rustc reorders in the MIDDLE only
    # (niche-carrying bool/char ahead of u8/u32) while the first and last field of the run stay in place
    Struct("SDeferred3", [F("o", "Option<u8>"), F("a", "bool"), F("b", "u8"), F("c", "bool"), F("d", "u8")], tags=["novec"]),
    Struct("SDeferred4", [F("o", "Option<u8>"), F("first", "char"), F("count", "u32"), F("last", "char"), F("total", "u32")], tags=["novec"]),
    Enum("EDir", [V("Up", disc=1), V("Down", disc=0)]),
    Enum("EOnly", [V("Only")]),
    Struct("SWithOnly", [F("tag", "EOnly"), F("value", "u8")], repr="C"),
    Enum("E256", [V("V%d" % i) for i in range(256)], tags=["novec", "big"]),
    Enum("E257", [V("V%d" % i) for i in range(257)], width=2, tags=["novec", "big"]),
    # version attributes on a single definition (C04 packed decision per version, C18 older writes)
    Struct("SVerOrder", [F("a", "u32"), F("b", "u32", vfrom=2), F("c", "u32", vfrom=1)], repr="C", version=2, tags=["older"]),
    Struct("SAbiRem", [F("a", "u32"), F("b", "AbiRemoved<u32>", vfrom=0, vto=0), F("c", "u32"), F("d", "u32", vfrom=2)],
           repr="C", version=2, tags=["older"]),
    Struct("SUpperBound", [F("a", "u32"), F("x", "u32", vfrom=0, vto=1)], repr="C", version=2, tags=["older"]),
    # a live field with a closed version range strictly inside the history (not packed: plain repr)
    Struct("SMidRange", [F("a", "u32"), F("b", "u16", vfrom=1, vto=2), F("c", "u8")], version=3, tags=["older"]),
    # versioned types nested inside other types: the version must be passed down to nested serializers / packed decisions
    Struct("SOuterVer", [F("pre", "u8"), F("inner", "SVerOrder"), F("post", "u8")], version=2, tags=["older"]),
    Struct("SContVer", [F("o", "Option<SVerOrder>"), F("arr", "[SVerOrder; 2]"), F("b", "Box<SVerOrder>")], version=2, tags=["older", "novec"]),
    # a field with a version range inside an enum variant
    Enum("EVerField", [V("A"), V("B", [F("x", "u32"), F("y", "u16", vfrom=1)])], version=1, tags=["older", "novec"]),
    # Removed fields at the first / last position of a variant of an explicit-repr enum (the positional layout checks
    # "payload starts after the discriminant" / "payload ends at size_of" must not disappear with them)
    Enum("ERemFirst", [V("V", [F("old", "Removed<u8>", vfrom=0, vto=0), F("val", "u32")])], repr="u8", version=1, tags=["novec"]),
    Enum("ERemLast", [V("V", [F("0", "u8"), F("1", "Removed<u8>", vfrom=0, vto=0)], tuple_=True)], repr="u16", width=2, version=1, tags=["novec"]),
    # a versioned field in an EARLIER variant of an explicit-repr enum
    Enum("EVerPacked", [V("Dot", [F("0", "u8"), F("1", "u8", vfrom=1)], tuple_=True), V("Line", [F("0", "u8"), F("1", "u8")], tuple_=True)],
         repr="u8", version=1, tags=["older"]),
    # a single-field struct with trailing padding, and a struct embedding it
    Struct("SAlignedTag", [F("tag", "u8")], repr="align(4)"),
    Struct("SRecordAl", [F("tag", "SAlignedTag"), F("value", "u32")]),
    # a variant added at version 2 declared BEFORE an older variant
    Enum("EVerMid", [V("A"), V("B", [F("0", "u32")], tuple_=True, vfrom=2), V("C", [F("0", "u16")], tuple_=True)], version=2, tags=["novec"]),
]

# ---- evolution histories: each entry is a list of definitions of "the same" type at versions 0..n -----
def default_u16_fn():
    return "hist_default_u16"

HISTORIES = {
    "HA": [
        Struct("HA0", [F("a", "u32"), F("b", "u16")], version=0),
        Struct("HA1", [F("a", "u32"), F("c", "u8", vfrom=1, default="7"), F("b", "u16")], version=1),
        Struct("HA2", [F("a", "u32"), F("c", "u8", vfrom=1, default="7"), F("b", "Removed<u16>", vfrom=0, vto=1)], version=2),
        Struct("HA3", [F("a", "u32"), F("c", "u8", vfrom=1, default="7"), F("b", "Removed<u16>", vfrom=0, vto=1),
                       F("d", "u16", vfrom=3, default_fn="hist_default_u16")], version=3),
    ],
    "HB": [
        Struct("HB0", [F("a", "u32"), F("b", "u32"), F("c", "u32")], repr="C", version=0),
        Struct("HB1", [F("a", "u32"), F("b", "AbiRemoved<u32>", vfrom=0, vto=0), F("c", "u32")], repr="C", version=1),
        Struct("HB2", [F("a", "u32"), F("b", "AbiRemoved<u32>", vfrom=0, vto=0), F("c", "u32"), F("d", "u32", vfrom=2)], repr="C", version=2),
    ],
    "HC": [
        Struct("HC0", [F("a", "u8"), F("b", "u16")], version=0),
        Struct("HC1", [F("a", "u8"), F("b", "u32", vfrom=1, versions_as="0..0:u16", conv="u32::from({x})")], version=1),
    ],
    "HD": [
        Struct("HD0", [F("a", "u8")], version=0),
        Struct("HD1", [F("a", "u8"), F("b", "u16", vfrom=1)], version=1),
        Struct("HD2", [F("a", "u8"), F("b", "u32", vfrom=2, versions_as="1..1:u16", conv="u32::from({x})")], version=2),
    ],
    "HE": [
        Struct("HE0", [F("a", "u32"), F("c", "u32")], repr="C", version=0),
        Struct("HE1", [F("a", "u32"), F("r", "u32", vfrom=1), F("c", "u32")], repr="C", version=1),
        Struct("HE2", [F("a", "u32"), F("r", "u32", vfrom=1), F("c", "u32")], repr="C", version=2),
        Struct("HE3", [F("a", "u32"), F("r", "Removed<u32>", vfrom=1, vto=2), F("c", "u32")], repr="C", version=3),
    ],
    "HG": [
        Struct("HG0", [F("a", "u8")], version=0),
        Struct("HG1", [F("a", "u8"), F("flags", "u16", vfrom=1)], version=1),
        Struct("HG2", [F("a", "u8"), F("flags", "AbiRemoved<u16>", vfrom=1, vto=1)], version=2),
    ],
    "HF": [
        Enum("HF0", [V("A"), V("B", [F("0", "u8")], tuple_=True)], version=0),
        Enum("HF1", [V("A"), V("B", [F("0", "u8")], tuple_=True), V("C", [F("0", "u16")], tuple_=True, vfrom=1)], version=1),
    ],
}
for _h in HISTORIES.values():
    for _t in _h:
        _t.tags = set(_t.tags) | {"novec", "hist"}
        FAMILY.append(_t)



def type_decl(t):
    lines = []
    has_abi = t.kind == "struct" and any(f.ty.startswith("AbiRemoved<") for f in t.fields)
    if has_abi:
        # AbiRemoved<T, DefaultValueConstructor<T>> is not Clone: write Clone by hand
        lines.append("impl Clone for %s { fn clone(&self) -> Self { %s { %s } } }" % (t.name, t.name, ", ".join(
            "%s: %s" % (f.name, "AbiRemoved::new()" if f.ty.startswith("AbiRemoved<") else "self.%s.clone()" % f.name) for f in t.fields)))
    lines.append("#[derive(Savefile, Debug%s%s)]" % ("" if has_abi else ", Clone", t_derive_extra(t)))
    if t.repr:
        lines.append("#[repr(%s)]" % t.repr)
    if t.kind == "struct":
        if not t.fields:
            lines.append("pub struct %s;" % t.name)
        elif t.tuple:
            lines.append("pub struct %s(%s);" % (t.name, ", ".join("%s pub %s" % (f.attr_text(), f.ty) for f in t.fields)))
        else:
            lines.append("pub struct %s {" % t.name)
            for f in t.fields:
                a = f.attr_text()
                if a:
                    lines.append("    " + a)
                lines.append("    pub %s: %s," % (f.name, f.ty))
            lines.append("}")
    else:
        lines.append("pub enum %s {" % t.name)
        for (vn, fs, disc, tup, vfrom) in t.variants:
            pre = ('#[savefile_versions = "%d.."] ' % vfrom) if vfrom else ""
            if not fs:
                lines.append("    %s%s%s," % (pre, vn, (" = %d" % disc) if disc is not None else ""))
            elif tup:
                lines.append("    %s%s(%s)," % (pre, vn, ", ".join("%s %s" % (f.attr_text(), f.ty) for f in fs)))
            else:
                lines.append("    %s%s { %s }," % (pre, vn, ", ".join("%s %s: %s" % (f.attr_text(), f.name, f.ty) for f in fs)))
        lines.append("}")
    return "\n".join(lines)


def t_derive_extra(t):
    return getattr(t, "derive_extra", "")


def field_access(f, tuple_):
    return "self.%s" % f.name


def renc_fields(fs, accessor):
    out = []
    for f in fs:
        cond = f.present_cond()
        stmt = "%s.renc(v, out);" % accessor(f)
        if f.ty.startswith("AbiRemoved<") or f.ty.startswith("Removed<"):
            # wire layout at a version where the removed field still exists: the bytes of a T
            # (AbiRemoved writes the constructed value; Removed cannot be written at all, its entry
            # only serves the "memory layout == wire layout" comparison of the packed decision)
            inner = f.ty[f.ty.index("<") + 1:-1]
            stmt = "<%s as Default>::default().renc(v, out);" % inner
        out.append(("if %s { %s }" % (cond, stmt)) if cond else stmt)
    return out


def ok_fields(fs, accessor):
    return " && ".join(["true"] + ["%s.ok()" % accessor(f) for f in fs if not is_removed(f.ty)])


def renc_impl(t):
    L = ["impl RefEnc for %s {" % t.name, "    fn renc(&self, v: u32, out: &mut Vec<u8>) {"]
    if t.kind == "struct":
        for s in renc_fields(t.fields, lambda f: "self.%s" % f.name):
            L.append("        " + s)
        L.append("    }")
        L.append("    fn ok(&self) -> bool { %s }" % ok_fields(t.fields, lambda f: "self.%s" % f.name))
    else:
        L.append("        match self {")
        oks = []
        for idx, (vn, fs, disc, tup, vfrom) in enumerate(t.variants):
            if not fs:
                pat = "%s::%s" % (t.name, vn)
            elif tup:
                pat = "%s::%s(%s)" % (t.name, vn, ", ".join("f%s" % f.name for f in fs))
            else:
                pat = "%s::%s { %s }" % (t.name, vn, ", ".join("%s: f%s" % (f.name, f.name) for f in fs))
            body = ["out.extend_from_slice(&(%du%d).to_le_bytes());" % (idx, t.width * 8)]
            body += renc_fields(fs, lambda f: "f%s" % f.name)
            L.append("            %s => { %s }" % (pat, " ".join(body)))
            oks.append("            %s => { %s }" % (pat, ok_fields(fs, lambda f: "f%s" % f.name)))
        L.append("        }")
        L.append("    }")
        L.append("    fn ok(&self) -> bool {")
        L.append("        match self {")
        L += oks
        L.append("        }")
        L.append("    }")
    L += ["}"]
    return "\n".join(L)


def fam_impl(t, names):
    L = ["impl Fam for %s {" % t.name, "    const VERSION: u32 = %d;" % t.version,
         "    const NAME: &'static str = \"%s\";" % t.name,
         "    fn sym<S: Src>(s: &mut S) -> Self {"]
    if t.kind == "struct":
        if not t.fields:
            L.append("        %s" % t.name)
        elif t.tuple:
            L.append("        %s(%s)" % (t.name, ", ".join(sym_expr(f.ty, names) for f in t.fields)))
        else:
            for f in t.fields:
                L.append("        let %s = %s;" % (f.name, sym_expr(f.ty, names)))
            L.append("        %s { %s }" % (t.name, ", ".join(f.name for f in t.fields)))
    else:
        L.append("        let k = s.%s();" % ("u8" if len(t.variants) <= 256 else "u16"))
        L.append("        s.assume((k as usize) < %d);" % len(t.variants))
        L.append("        match k {")
        for idx, (vn, fs, disc, tup, vfrom) in enumerate(t.variants):
            if not fs:
                e = "%s::%s" % (t.name, vn)
            elif tup:
                e = "%s::%s(%s)" % (t.name, vn, ", ".join(sym_expr(f.ty, names) for f in fs))
            else:
                e = "%s::%s { %s }" % (t.name, vn, ", ".join("%s: %s" % (f.name, sym_expr(f.ty, names)) for f in fs))
            arm = "%d" % idx if idx < len(t.variants) - 1 else "_"
            L.append("            %s => %s," % (arm, e))
        L.append("        }")
    L += ["    }", "}"]
    return "\n".join(L)


def is_removed(ty):
    return ty.startswith("Removed<") or ty.startswith("AbiRemoved<")


def live_fields(t):
    return [f for f in t.fields if not is_removed(f.ty)]


def default_expr(f):
    if f.default is not None:
        return "%s" % f.default
    if f.default_fn is not None:
        return "%s()" % f.default_fn
    return "Default::default()"


def evolve_impl(old, new):
    """impl Evolve<Old> for New: the value the documented rules say loading Old-data into New must give."""
    L = ["impl Evolve<%s> for %s {" % (old.name, new.name), "    fn expect_from(old: &%s) -> Self {" % old.name]
    if new.kind == "struct":
        inits = []
        for f in new.fields:
            if f.ty.startswith("Removed<"):
                e = "Removed::new()"
            elif f.ty.startswith("AbiRemoved<"):
                e = "AbiRemoved::new()"
            else:
                g = [g for g in live_fields(old) if g.fid == f.fid and g.vfrom <= old.version]
                if g:
                    g = g[0]
                    x = "old.%s.clone()" % g.name
                    e = x if g.ty == f.ty else (f.conv.format(x=x) if f.conv else "%s::from(%s)" % (f.ty, x))
                else:
                    e = default_expr(f)
            inits.append("%s: %s" % (f.name, e))
        L.append("        %s { %s }" % (new.name, ", ".join(inits)))
    else:
        L.append("        match old {")
        for (vn, fs, disc, tup, vfrom) in old.variants:
            if not fs:
                L.append("            %s::%s => %s::%s," % (old.name, vn, new.name, vn))
            elif tup:
                b = ", ".join("f%s" % f.name for f in fs)
                L.append("            %s::%s(%s) => %s::%s(%s)," % (old.name, vn, b, new.name, vn, ", ".join("f%s.clone()" % f.name for f in fs)))
            else:
                b = ", ".join("%s" % f.name for f in fs)
                L.append("            %s::%s { %s } => %s::%s { %s }," % (old.name, vn, b, new.name, vn, ", ".join("%s: %s.clone()" % (f.name, f.name) for f in fs)))
        L.append("        }")
    L += ["    }", "}"]
    return "\n".join(L)


def project_ok(new, old):
    if new.kind != "struct":
        return False
    for f in new.fields:
        if f.ty.startswith("Removed<") or f.versions_as:
            return False
    return True


def project_impl(new, old):
    """impl Project<Old> for New: what the Old definition must read from New-data written at Old's version."""
    L = ["impl Project<%s> for %s {" % (old.name, new.name), "    fn project(&self) -> %s {" % old.name]
    inits = []
    for g in old.fields:
        if is_removed(g.ty):
            inits.append("%s: %s" % (g.name, "AbiRemoved::new()" if g.ty.startswith("Abi") else "Removed::new()"))
            continue
        f = [f for f in new.fields if f.fid == g.fid][0]
        if f.ty.startswith("AbiRemoved<"):
            inits.append("%s: <%s as Default>::default()" % (g.name, g.ty))
        else:
            inits.append("%s: self.%s.clone()" % (g.name, f.name))
    L.append("        %s { %s }" % (old.name, ", ".join(inits)))
    L += ["    }", "}"]
    return "\n".join(L)


SIZES = {"u8": 1, "i8": 1, "bool": 1, "u16": 2, "i16": 2, "u32": 4, "i32": 4, "char": 4, "f32": 4, "u64": 8, "i64": 8,
         "usize": 8, "isize": 8, "f64": 8, "u128": 16, "i128": 16}


def max_size(ty, types):
    """largest encoded size of a type at its current version (None if unbounded)"""
    ty = ty.strip()
    if ty in SIZES:
        return SIZES[ty]
    if ty in types:
        t = types[ty]
        if t.kind == "struct":
            tot = 0
            for f in t.fields:
                if is_removed(f.ty) or f.vfrom > t.version or (f.vto is not None and f.vto < t.version):
                    continue
                m = max_size(f.ty, types)
                if m is None:
                    return None
                tot += m
            return tot
        best = 0
        for (vn, fs, disc, tup, vfrom) in t.variants:
            tot = t.width
            for f in fs:
                m = max_size(f.ty, types)
                if m is None:
                    return None
                tot += m
            best = max(best, tot)
        return best
    if ty.startswith("Option<"):
        m = max_size(ty[7:-1], types)
        return None if m is None else 1 + m
    if ty.startswith("(") and ty.endswith(")"):
        ms = [max_size(p, types) for p in ty[1:-1].split(",") if p.strip()]
        return None if any(m is None for m in ms) else sum(ms)
    if ty.startswith("[") and ";" in ty:
        inner, n = ty[1:-1].split(";")
        m = max_size(inner, types)
        return None if m is None else m * int(n)
    return None


CONTAINER_TYPES = ["SPlain", "SPackedC", "SMixC", "SBoolChar", "SNest", "STuple", "SArr", "EUnit", "EData", "EReprU16",
                   "SWithEnumOk", "HA3", "HB2"]


def main():
    names = set(t.name for t in FAMILY)
    out = ["// GENERATED by /verif/gen/gen_family.py -- do not edit", "#![allow(non_camel_case_types, dead_code)]",
           "use savefile::prelude::*;", "use savefile_derive::Savefile;", "use crate::refenc::RefEnc;", "use crate::src::Src;",
           "use crate::family::{Fam, Evolve, Project, sym_string, sym_vec};", "",
           "pub fn hist_default_u16() -> u16 { 0xBEEF }", ""]
    for t in FAMILY:
        out.append(type_decl(t))
        out.append(renc_impl(t))
        out.append(fam_impl(t, names))
        out.append("")
    reg = ["// GENERATED by /verif/gen/gen_family.py -- do not edit", "harnesses! { proofs_family, registry_family;"]
    for t in FAMILY:
        n = t.name
        kind = "bounded" if "bounded" in t.tags else "complete"
        bound = "strings: alphabet {a,b}, length <= 2" if "bounded" in t.tags else ""
        unwind = 300 if "big" in t.tags else 48
        fns = "derive(Savefile) output for %s: Serialize::serialize; Deserialize::deserialize; Packed::repr_c_optimization_safe; WithSchema::schema" % n
        reg.append('    h(fam_rt_%s, %d, crate::family::roundtrip::<crate::family_gen::%s, _>, "%s", "C01,C02", "%s", "%s");' % (n, unwind, n, kind, fns, bound))
        reg.append('    h(fam_packed_%s, %d, crate::family::packed_sound::<crate::family_gen::%s, _>, "%s", "C04,C18", "%s", "%s");' % (n, unwind, n, kind, fns, bound))
        if "novec" not in t.tags:
            reg.append('    h(fam_vec_%s, 64, crate::family::vec_transparent::<crate::family_gen::%s, _>, "bounded", "C04,C01,C02", "%s; <Vec<T> as Serialize>::serialize; <Vec<T> as Deserialize>::deserialize; regular_serialize_vec; regular_deserialize_vec", "Vec length = 2 (values symbolic)");' % (n, n, fns))
        if "older" in t.tags:
            reg.append('    h(fam_older_%s, 48, crate::family::write_older::<crate::family_gen::%s, _>, "complete", "C18,C02", "%s", "");' % (n, n, fns))
    for hname, hist in HISTORIES.items():
        for i, old in enumerate(hist):
            for j, new in enumerate(hist):
                if i < j:
                    out.append(evolve_impl(old, new))
                    fns = "derive(Savefile) Deserialize for %s reading version-%d data; Deserializer::load_impl; Removed/AbiRemoved::deserialize" % (new.name, old.version)
                    reg.append('    h(evo_%s_%s, 48, crate::family::evolve_load::<crate::family_gen::%s, crate::family_gen::%s, _>, "complete", "C03", "%s", "");' % (old.name, new.name, old.name, new.name, fns))
                    if False and new.kind == "struct" and "C" == (new.repr or ""):
                        reg.append('    h(evovec_%s_%s, 64, crate::family::evolve_load_vec::<crate::family_gen::%s, crate::family_gen::%s, _>, "bounded", "C03,C04", "%s; <Vec<T> as Deserialize>::deserialize", "Vec length = 2 (values symbolic)");' % (old.name, new.name, old.name, new.name, fns))
                    if project_ok(new, old):
                        out.append(project_impl(new, old))
                        fns2 = "derive(Savefile) Serialize for %s writing version %d; AbiRemoved::serialize" % (new.name, old.version)
                        reg.append('    h(older_%s_%s, 48, crate::family::write_older_read::<crate::family_gen::%s, crate::family_gen::%s, _>, "complete", "C18", "%s", "");' % (new.name, old.name, new.name, old.name, fns2))
    types = {t.name: t for t in FAMILY}
    for n in CONTAINER_TYPES:
        T = "crate::family_gen::%s" % n
        der = "derive(Savefile) output for %s" % n
        reg.append('    h(file_%s, 64, crate::containers::file_noschema::<%s, _>, "complete", "C01,C02", "Serializer::save_impl; Deserializer::load_impl; savefile::save_noschema; savefile::load_noschema; %s", "");' % (n, T, der))
        reg.append('    h(trunc_%s, 64, crate::containers::truncate_noschema::<%s, _>, "complete", "C07", "Deserializer::load_impl; Deserializer::read_*; %s Deserialize", "");' % (n, T, der))
        reg.append('    h(shortw_%s, 96, crate::containers::short_write::<%s, _, 1>, "complete", "C08", "Serializer::save_impl; Serializer::write_*; %s Serialize", "writer accepts 1 byte per call (all values)");' % (n, T, der))
        reg.append('    h(chunk1_%s, 96, crate::containers::chunked_read::<%s, _, 1>, "complete", "C08", "Deserializer::load_impl; Deserializer::read_*; %s Deserialize", "reader delivers 1 byte per call (all values)");' % (n, T, der))
        reg.append('    h(chunk3_%s, 96, crate::containers::chunked_read::<%s, _, 3>, "complete", "C08", "Deserializer::load_impl; Deserializer::read_*; %s Deserialize", "reader delivers 3 bytes per call (all values)");' % (n, T, der))
        reg.append('    h(flushfail_%s, 96, crate::containers::flush_fail::<%s, _>, "complete", "C08", "Serializer::save_impl (final flush of the caller\'s writer); From<io::Error> for SavefileError; %s Serialize", "");' % (n, T, der))
        if n in ("SPlain", "EData"):
            for at in (0, 9, 16, 17):
                reg.append('    h(failw%d_%s, 96, crate::containers::fail_write::<%s, _, %d>, "bounded", "C08", "Serializer::save_impl; Serializer::write_*; From<io::Error> for SavefileError; %s Serialize", "hard write failure at byte offset %d (one offset per instance; all offsets are covered by the Verus Err-clauses)");' % (at, n, T, at, der, at))
        reg.append('    h(schema_%s, 64, crate::schemaread::schema_faithful::<%s, _>, "complete", "C12", "%s WithSchema::schema; savefile::get_schema; Serialize", "");' % (n, T, der))
        reg.append('    h(intro_%s, 64, crate::family::intro_index::<%s, _>, "complete", "C17", "%s Introspect::introspect_len; Introspect::introspect_child", "");' % (n, T, der))
        m = max_size(n, types)
        if m is not None:
            reg.append('    h(mal_%s, 64, crate::containers::malformed_fixed::<%s, _, %d>, "complete", "C06", "%s Deserialize; Deserializer::read_*", "");' % (n, T, m, der))
    nat = ["// GENERATED by /verif/gen/gen_family.py -- native (small-scope enumeration) registry for the family",
           "pub fn native_family_registry() -> Vec<(&'static str, fn(&mut crate::src::EnumSrc))> {", "    vec!["]
    for n in CONTAINER_TYPES + ["EVerMid", "SWithOnly", "EDir", "EOnly", "SVerOrder", "SAbiRem", "SMidRange", "SOuterVer", "SContVer", "EVerField", "SDeferred3", "SDeferred4", "EVerPacked", "ERemFirst", "ERemLast", "SRecordAl", "HC1", "HD2", "HA1", "HE3", "HF1", "HG2"]:
        nat.append('        // n(nschema_%s, "C12", "derive WithSchema for %s; savefile::get_schema; derive Serialize", "small-scope values of %s at its current version");' % (n, n, n))
        nat.append('        ("nschema_%s", (|s: &mut crate::src::EnumSrc| crate::schemaread::schema_faithful::<crate::family_gen::%s, _>(s)) as fn(&mut crate::src::EnumSrc)),' % (n, n))
    xnat = []
    for hname, hist in HISTORIES.items():
        for i, o in enumerate(hist):
            for j, nw in enumerate(hist):
                if i < j:
                    xnat.append('        // n(nevo_%s_%s, "C03,C05", "savefile::save; savefile::save_compressed; savefile::load; Deserializer::load_impl (schema gate at the file version, plain and bzip2 branches); derive Deserialize for %s reading version-%d data", "small-scope values of %s; plain and compressed container with schema");' % (o.name, nw.name, nw.name, o.version, o.name))
                    xnat.append('        ("nevo_%s_%s", (|s: &mut crate::src::EnumSrc| crate::native_crypto::evolve_container::<crate::family_gen::%s, crate::family_gen::%s, _>(s)) as fn(&mut crate::src::EnumSrc)),' % (o.name, nw.name, o.name, nw.name))
    for t in FAMILY:
        if t.name in ("SWithEnum", "SUpperBound") or "big" in t.tags:
            continue   # the two known findings have their own (Kani) obligations; 256/257-variant enums are Kani's
        nat.append('        // n(nfam_rt_%s, "C01,C02", "derive(Savefile) output for %s: Serialize::serialize; Deserialize::deserialize", "small-scope values of %s (bounded fallback for the Kani harness fam_rt_%s)");' % (t.name, t.name, t.name, t.name))
        nat.append('        ("nfam_rt_%s", (|s: &mut crate::src::EnumSrc| crate::family::roundtrip::<crate::family_gen::%s, _>(s)) as fn(&mut crate::src::EnumSrc)),' % (t.name, t.name))
    KF = ("EExplicit", "SWithEnum", "SUpperBound")   # known findings: their (Kani) obligations carry the finding
    for t in FAMILY:
        if t.name in KF or "big" in t.tags:
            continue
        n = t.name
        nat.append('        // n(nfam_packed_%s, "C04,C18", "derive(Savefile) Packed::repr_c_optimization_safe for %s", "small-scope values of %s, every version <= current (bounded fallback for the Kani harness fam_packed_%s)");' % (n, n, n, n))
        nat.append('        ("nfam_packed_%s", (|s: &mut crate::src::EnumSrc| crate::family::packed_sound::<crate::family_gen::%s, _>(s)) as fn(&mut crate::src::EnumSrc)),' % (n, n))
        if "novec" not in t.tags:
            nat.append('        // n(nfam_vec_%s, "C04,C01", "<Vec<T> as Serialize>::serialize; <Vec<T> as Deserialize>::deserialize (bulk and regular paths) for T = %s", "Vec of two small-scope values of %s (bounded fallback for fam_vec_%s)");' % (n, n, n, n))
            nat.append('        ("nfam_vec_%s", (|s: &mut crate::src::EnumSrc| crate::family::vec_transparent::<crate::family_gen::%s, _>(s)) as fn(&mut crate::src::EnumSrc)),' % (n, n))
        if "older" in t.tags:
            nat.append('        // n(nfam_older_%s, "C18", "derive(Savefile) Serialize for %s writing every older version", "small-scope values of %s (bounded fallback for fam_older_%s)");' % (n, n, n, n))
            nat.append('        ("nfam_older_%s", (|s: &mut crate::src::EnumSrc| crate::family::write_older::<crate::family_gen::%s, _>(s)) as fn(&mut crate::src::EnumSrc)),' % (n, n))
    for t in FAMILY:
        if t.name in KF or "big" in t.tags or "novec" in t.tags or "bounded" in t.tags:
            continue
        nat.append('        // n(nbulk_%s, "C04", "Serialize/Deserialize (bulk and regular paths) for Vec<T>, Box<[T]>, Arc<[T]>, [T;N], ArrayVec<T,C>, VecDeque<T> with T = %s", "two small-scope element values of %s");' % (t.name, t.name, t.name))
        nat.append('        ("nbulk_%s", (|s: &mut crate::src::EnumSrc| crate::native_misc::bulk_containers::<crate::family_gen::%s, _>(s)) as fn(&mut crate::src::EnumSrc)),' % (t.name, t.name))
    for hname, hist in HISTORIES.items():
        for i, o in enumerate(hist):
            for j, nw in enumerate(hist):
                if i < j and project_ok(nw, o):
                    nat.append('        // n(nolder_%s_%s, "C18", "derive(Savefile) Serialize for %s writing version %d; derive Deserialize for %s; AbiRemoved::serialize", "small-scope values of %s (bounded fallback for older_%s_%s)");' % (nw.name, o.name, nw.name, o.version, o.name, nw.name, nw.name, o.name))
                    nat.append('        ("nolder_%s_%s", (|s: &mut crate::src::EnumSrc| crate::family::write_older_read::<crate::family_gen::%s, crate::family_gen::%s, _>(s)) as fn(&mut crate::src::EnumSrc)),' % (nw.name, o.name, nw.name, o.name))
    for n in ["SVerOrder", "SAbiRem", "SMidRange", "SOuterVer", "SContVer", "EVerField"]:
        nat.append('        // n(nschema_versions_%s, "C12", "derive WithSchema for %s at every version <= current; savefile::get_schema; derive Serialize writing older versions", "small-scope values of %s, every version 0..=current");' % (n, n, n))
        nat.append('        ("nschema_versions_%s", (|s: &mut crate::src::EnumSrc| crate::schemaread::schema_faithful_versions::<crate::family_gen::%s, _>(s)) as fn(&mut crate::src::EnumSrc)),' % (n, n))
    for n in CONTAINER_TYPES:
        nat.append('        // n(nfault_%s, "C08", "Serializer::save_impl; Deserializer::load_impl; savefile::save; savefile::load; derive Serialize/Deserialize for %s", "small-scope values of %s; every write-failure offset, flush failure, short writes 1..3 with Interrupted patterns, every read-failure offset, chunked reads 1..4; with and without schema");' % (n, n, n))
        nat.append('        ("nfault_%s", (|s: &mut crate::src::EnumSrc| crate::native_misc::fault_family::<crate::family_gen::%s, _>(s)) as fn(&mut crate::src::EnumSrc)),' % (n, n))
        nat.append('        // n(nintro_%s, "C17", "derive Introspect for %s (introspect_len; introspect_child)", "small-scope values of %s, recursively to depth 4, indices 0..len, len..2len+1 and near usize::MAX");' % (n, n, n))
        nat.append('        ("nintro_%s", (|s: &mut crate::src::EnumSrc| crate::native_misc::intro_family::<crate::family_gen::%s, _>(s)) as fn(&mut crate::src::EnumSrc)),' % (n, n))
    nat += ["    ]", "}"]
    nat += ["#[cfg(feature = \"xnative\")]", "pub fn native_family_registry_x() -> Vec<(&'static str, fn(&mut crate::src::EnumSrc))> {", "    vec!["] + xnat + ["    ]", "}"]
    # native-only: an enum that grows from 255 to exactly 256 variants by appending a versioned variant (C03)
    e = ["// GENERATED by /verif/gen/gen_family.py -- native-only definitions (not compiled under Kani)",
         "use savefile_derive::Savefile;",
         "#[derive(Savefile, Debug, Clone, Copy, PartialEq)]", "pub enum E255Old {"] + ["    V%d," % i for i in range(255)] + ["}",
         "#[derive(Savefile, Debug, Clone, Copy, PartialEq)]", "pub enum E256New {"] + ["    V%d," % i for i in range(255)] + ['    #[savefile_versions = "1.."] V255,', "}"]
    open(os.path.join(OUT, "native_enum256.rs"), "w").write("\n".join(e) + "\n")
    open(os.path.join(OUT, "native_family.rs"), "w").write("\n".join(nat) + "\n")
    open(os.path.join(OUT, "family_gen.rs"), "w").write("\n".join(out))
    reg.append("}")
    # Unwinding bounds: the container harnesses compare / copy whole files (memcmp, one-byte chunk loops). For the larger
    # family members the default bound was measured to be too small (unwinding assertions are on, so such a harness FAILS
    # its unwinding assertion, it never passes silently). Those are listed in kani/unwind_overrides.json with a bound of 200.
    import json, re
    ov = json.load(open(os.path.join(ROOT, "kani", "unwind_overrides.json")))
    def bump(line):
        m = re.match(r"(\s*h\()(\w+), (\d+),(.*)", line)
        if m and m.group(2) in ov:
            return "%s%s, %d,%s" % (m.group(1), m.group(2), ov[m.group(2)], m.group(4))
        return line
    reg = [bump(l) for l in reg]
    open(os.path.join(OUT, "registry_family.rs"), "w").write("\n".join(reg) + "\n")
    print("family: %d types, %d harnesses" % (len(FAMILY), len(reg) - 3))


if __name__ == "__main__":
    main()
