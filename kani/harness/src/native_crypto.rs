//! Native-only BOUNDED harness bodies for the encrypted and the bzip2-compressed containers (C01, C07, C08, C14),
//! compiled only with the harness feature `xnative` (savefile features `encryption` + `compression`).
//! `ring` (assembly) and `bzip2` (C) cannot be executed by Kani and are outside Verus; V-crypto proves the reader's
//! framing against an ideal-AEAD *model* -- here the real ring / bzip2 code runs, on small-scope inputs.
use crate::src::Src;
use savefile::prelude::*;
use std::sync::atomic::{AtomicU32, Ordering};

static COUNTER: AtomicU32 = AtomicU32::new(0);
struct TempFile(std::path::PathBuf);
impl TempFile {
    fn new() -> TempFile {
        let mut p = std::env::temp_dir();
        p.push(format!("verif_native_{}_{}.bin", std::process::id(), COUNTER.fetch_add(1, Ordering::SeqCst)));
        TempFile(p)
    }
}
impl Drop for TempFile { fn drop(&mut self) { let _ = std::fs::remove_file(&self.0); } }

const PASSWORDS: [&str; 6] = ["", "pw", "pw ", " pw", "PW", "p\u{308}w"];

#[derive(Savefile, Clone, Debug, PartialEq)]
pub struct Doc {
    pub id: u32,
    pub name: String,
    pub items: Vec<u16>,
    pub flag: Option<bool>,
}
fn doc<S: Src>(s: &mut S) -> Doc {
    let n = [0usize, 1, 3, 70_000][s.below(4)]; // 70_000 u16 = 140 kB: more than one 100 000 byte crypto chunk
    Doc { id: s.u32(), name: ["", "n", "näme"][s.below(3)].to_string(), items: (0..n).map(|i| (i * 7) as u16).collect(), flag: [None, Some(true)][s.below(2)] }
}

/// C14 + C01: an encrypted file loads with the password it was saved with and yields the saved value; any other
/// password yields an error; never a panic.
pub fn encrypted_passwords<S: Src>(s: &mut S) {
    let v = doc(s);
    let pw = PASSWORDS[s.below(PASSWORDS.len())];
    let other = PASSWORDS[s.below(PASSWORDS.len())];
    let f = TempFile::new();
    assert!(savefile::save_encrypted_file(&f.0, 0, &v, pw).is_ok(), "saving an encrypted file succeeds");
    match savefile::load_encrypted_file::<Doc, _>(&f.0, 0, other) {
        Ok(b) => {
            assert!(other == pw, "C14: a file saved with password {:?} loaded with password {:?}", pw, other);
            assert!(b == v, "C01: the encrypted container returns the saved value");
        }
        Err(_) => assert!(other != pw, "C14/C01: the right password must load the intact file"),
    }
}

fn positions<S: Src>(s: &mut S, n: usize) -> usize {
    if n <= 160 { s.below(n) } else {
        let mut c: Vec<usize> = (0..40).collect();                       // nonce, first size header, start of first chunk
        for d in [n / 2, n - 1, n - 2, n - 16, n - 17, n - 24, n - 25, 100_000 + 12 + 8 + 15, 100_000 + 12 + 8 + 16, 100_000 + 12 + 8 + 17, 100_000 + 12 + 8 + 16 + 8, 100_000 + 12 + 8 + 16 + 9] {
            if d < n { c.push(d); }
        }
        c[s.below(c.len())]
    }
}

/// C14 + C07: any single modified byte and any truncation of the stored bytes yields an error, never a value, never
/// a panic.
pub fn encrypted_tamper<S: Src>(s: &mut S) {
    let v = doc(s);
    let f = TempFile::new();
    assert!(savefile::save_encrypted_file(&f.0, 0, &v, "pw").is_ok());
    let good = std::fs::read(&f.0).unwrap();
    let g = TempFile::new();
    let p = positions(s, good.len());
    if s.bool() {
        let mut bad = good.clone();
        bad[p] ^= [1u8, 0x80, 0xff][s.below(3)];
        std::fs::write(&g.0, &bad).unwrap();
        assert!(savefile::load_encrypted_file::<Doc, _>(&g.0, 0, "pw").is_err(), "C14: a modified byte (offset {} of {}) must yield an error", p, good.len());
    } else {
        std::fs::write(&g.0, &good[..p]).unwrap();
        assert!(savefile::load_encrypted_file::<Doc, _>(&g.0, 0, "pw").is_err(), "C14/C07: a file truncated to {} of {} bytes must yield an error", p, good.len());
    }
}

/// C01 + C07 for the bzip2-compressed container: round trip; a strict prefix fails or (only trailing container bytes
/// missing) returns the original value; never a different value, never a panic.
pub fn compressed_container<S: Src>(s: &mut S) {
    let v = doc(s);
    let mut good: Vec<u8> = Vec::new();
    assert!(savefile::save_compressed(&mut good, 0, &v).is_ok());
    assert!(&good[..9] == b"savefile\0" && good[15] == 1, "C02: header with the compression flag set");
    match savefile::load::<Doc>(&mut &good[..], 0) {
        Ok(b) => assert!(b == v, "C01: the compressed container returns the saved value"),
        Err(e) => assert!(false, "C01: the compressed container must load: {:?}", e),
    }
    let n = good.len();
    let k = if n <= 160 { s.below(n) } else { let c = [0, 9, 15, 16, 17, 20, n / 2, n - 40, n - 8, n - 4, n - 2, n - 1]; c[s.below(c.len())] };
    match savefile::load::<Doc>(&mut &good[..k], 0) {
        Ok(b) => assert!(b == v, "C07: a truncated compressed file ({} of {} bytes) returned a DIFFERENT value", k, n),
        Err(_) => {}
    }
}
