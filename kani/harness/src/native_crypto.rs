//! Native-only BOUNDED harness bodies for the encrypted and the bzip2-compressed containers (C01, C07, C08, C14),
//! compiled only with the harness feature `xnative` (savefile features `encryption` + `compression`).
//! `ring` (assembly) and `bzip2` (C) cannot be executed by Kani and are outside Verus; V-crypto proves the reader's
//! framing against an ideal-AEAD *model* -- here the real ring / bzip2 code runs, on small-scope inputs.
use crate::src::Src;
use savefile::prelude::*;
use std::sync::atomic::{AtomicU32, Ordering};

static COUNTER: AtomicU32 = AtomicU32::new(0);
struct TempFile(std::path::PathBuf);
impl TempFile {
    fn new() -> TempFile {
        let mut p = std::env::temp_dir();
        p.push(format!("verif_native_{}_{}.bin", std::process::id(), COUNTER.fetch_add(1, Ordering::SeqCst)));
        TempFile(p)
    }
}
impl Drop for TempFile { fn drop(&mut self) { let _ = std::fs::remove_file(&self.0); } }

const PASSWORDS: [&str; 9] = ["", "\n", "pw", "pw ", "pw\n", "pw\r\n", " pw", "PW", "p\u{308}w"];

#[derive(Savefile, Clone, Debug, PartialEq)]
pub struct Doc {
    pub id: u32,
    pub name: String,
    pub items: Vec<u16>,
    pub flag: Option<bool>,
}
fn doc<S: Src>(s: &mut S) -> Doc {
    let n = [0usize, 3, 70_000][s.below(3)]; // 70_000 u16 = 140 kB: more than one 100 000 byte crypto chunk
    Doc { id: s.u32(), name: ["", "n", "näme"][s.below(3)].to_string(), items: (0..n).map(|i| (i * 7) as u16).collect(), flag: [None, Some(true)][s.below(2)] }
}

/// C14 + C01: an encrypted file loads with the password it was saved with and yields the saved value; any other
/// password yields an error; never a panic.
pub fn encrypted_passwords<S: Src>(s: &mut S) {
    let v = doc(s);
    let pw = PASSWORDS[s.below(PASSWORDS.len())];
    let other = PASSWORDS[s.below(PASSWORDS.len())];
    let f = TempFile::new();
    assert!(savefile::save_encrypted_file(&f.0, 0, &v, pw).is_ok(), "saving an encrypted file succeeds");
    match savefile::load_encrypted_file::<Doc, _>(&f.0, 0, other) {
        Ok(b) => {
            assert!(other == pw, "C14: a file saved with password {:?} loaded with password {:?}", pw, other);
            assert!(b == v, "C01: the encrypted container returns the saved value");
        }
        Err(_) => assert!(other != pw, "C14/C01: the right password must load the intact file"),
    }
}

fn positions<S: Src>(s: &mut S, n: usize) -> usize {
    if n <= 160 { s.below(n) } else {
        let mut c: Vec<usize> = (0..40).collect();                       // nonce, first size header, start of first chunk
        for d in [n / 2, n - 1, n - 2, n - 16, n - 17, n - 24, n - 25, 100_000 + 12 + 8 + 15, 100_000 + 12 + 8 + 16, 100_000 + 12 + 8 + 17, 100_000 + 12 + 8 + 16 + 8, 100_000 + 12 + 8 + 16 + 9] {
            if d < n { c.push(d); }
        }
        c[s.below(c.len())]
    }
}

/// C14 + C07: any single modified byte and any truncation of the stored bytes yields an error, never a value, never
/// a panic.
pub fn encrypted_tamper<S: Src>(s: &mut S) {
    let v = doc(s);
    let f = TempFile::new();
    assert!(savefile::save_encrypted_file(&f.0, 0, &v, "pw").is_ok());
    let good = std::fs::read(&f.0).unwrap();
    let g = TempFile::new();
    let p = positions(s, good.len());
    if s.bool() {
        let mut bad = good.clone();
        bad[p] ^= [1u8, 0x80, 0xff][s.below(3)];
        std::fs::write(&g.0, &bad).unwrap();
        assert!(savefile::load_encrypted_file::<Doc, _>(&g.0, 0, "pw").is_err(), "C14: a modified byte (offset {} of {}) must yield an error", p, good.len());
    } else {
        std::fs::write(&g.0, &good[..p]).unwrap();
        assert!(savefile::load_encrypted_file::<Doc, _>(&g.0, 0, "pw").is_err(), "C14/C07: a file truncated to {} of {} bytes must yield an error", p, good.len());
    }
}

/// C01 + C07 for the bzip2-compressed container: round trip; a strict prefix fails or (only trailing container bytes
/// missing) returns the original value; never a different value, never a panic.
pub fn compressed_container<S: Src>(s: &mut S) {
    let v = doc(s);
    let mut good: Vec<u8> = Vec::new();
    assert!(savefile::save_compressed(&mut good, 0, &v).is_ok());
    assert!(&good[..9] == b"savefile\0" && good[15] == 1, "C02: header with the compression flag set");
    match savefile::load::<Doc>(&mut &good[..], 0) {
        Ok(b) => assert!(b == v, "C01: the compressed container returns the saved value"),
        Err(e) => assert!(false, "C01: the compressed container must load: {:?}", e),
    }
    let n = good.len();
    let k = if n <= 160 { s.below(n) } else { let c = [0, 9, 15, 16, 17, 20, n / 2, n - 40, n - 8, n - 4, n - 2, n - 1]; c[s.below(c.len())] };
    match savefile::load::<Doc>(&mut &good[..k], 0) {
        Ok(b) => assert!(b == v, "C07: a truncated compressed file ({} of {} bytes) returned a DIFFERENT value", k, n),
        Err(_) => {}
    }
}

/// C08 + C01 for the encryption wrapper itself (CryptoWriter / CryptoReader over instrumented I/O, real ring):
/// what CryptoReader hands out is what CryptoWriter accepted, independently of how the inner reader chunks the data
/// (1..7 bytes per call, Interrupted patterns) and of how the payload is split over write calls; a hard failure of
/// the inner writer or reader at any offset surfaces as Err; nothing panics (including Drop after a failure).
pub fn crypto_stream<S: Src>(s: &mut S) {
    use crate::native_misc::{NReader, NWriter};
    use savefile::{CryptoReader, CryptoWriter};
    use std::io::{Read, Write};
    let key = [7u8; 32];
    const LENS: [usize; 7] = [0, 1, 100, 99_999, 100_000, 100_001, 230_000];
    let n = LENS[s.below(LENS.len())];
    let payload: Vec<u8> = (0..n).map(|i| (i * 31 % 251) as u8).collect();
    let piece = [1usize << 30, 7, 4096, 100_000][s.below(4)];
    // fault-free stream
    let mut good = NWriter::new();
    {
        let mut cw = match CryptoWriter::new(&mut good, key) { Ok(c) => c, Err(_) => panic!("C08: CryptoWriter::new on a working writer") };
        for c in payload.chunks(piece.max(1)) { assert!(cw.write_all(c).is_ok(), "C08: writes to a working writer succeed"); }
        assert!(cw.flush().is_ok());
    }
    let stream = good.buf.clone();
    match s.below(6) {
        4 => {
            // writer: the inner writer accepts everything but its flush fails: flush() reports it, and neither a second
            // flush nor Drop panics (with an empty payload nothing is written after the nonce and nothing is flushed)
            if n == 0 { return; }
            let mut w = NWriter::new();
            w.flush_fails = true;
            let r = std::panic::catch_unwind(std::panic::AssertUnwindSafe(|| {
                let mut failed = false;
                match CryptoWriter::new(&mut w, key) {
                    Err(_) => failed = true,
                    Ok(mut cw) => {
                        for c in payload.chunks(piece.max(1)) { if cw.write_all(c).is_err() { failed = true; break; } }
                        if cw.flush().is_err() { failed = true; }
                    }
                }
                failed
            }));
            match r {
                Ok(failed) => assert!(failed, "C08: a failing flush of the inner writer surfaces as Err"),
                Err(_) => panic!("C08: a failing flush of the inner writer must not end in a panic (flush or Drop)"),
            }
        }
        5 => {
            // reader: the stream cut exactly at a chunk boundary is a clean end of stream: exactly the plaintext of the
            // chunks before the cut is handed out, then 0 -- never more, never the same bytes twice
            let mut bounds: Vec<(usize, usize)> = Vec::new(); // (stream offset after chunk, plaintext bytes so far)
            let mut p = 12usize;
            let mut plain = 0usize;
            while p + 8 <= stream.len() {
                let mut l = [0u8; 8]; l.copy_from_slice(&stream[p..p + 8]);
                let cl = u64::from_le_bytes(l) as usize;
                p += 8 + cl; plain += cl - 16;
                bounds.push((p, plain));
            }
            if bounds.len() < 2 { return; }
            let (cut, expect) = bounds[s.below(bounds.len() - 1)];
            let mut rd = NReader::new(&stream[..cut]);
            let mut cr = match CryptoReader::new(&mut rd, key) { Ok(c) => c, Err(_) => panic!("C07: CryptoReader::new on a stream cut at a chunk boundary") };
            let mut back = Vec::new();
            let want = [1usize, 4096, 1 << 20][s.below(3)];
            let mut buf = vec![0u8; want];
            loop {
                match cr.read(&mut buf) {
                    Ok(0) => break,
                    Ok(k) => { assert!(k <= want, "C07: read reports at most the buffer size"); back.extend_from_slice(&buf[..k]); }
                    Err(_) => break,
                }
                assert!(back.len() <= expect, "C07/C14: a stream cut at a chunk boundary hands out more than the chunks before the cut contain ({} > {})", back.len(), expect);
            }
            assert!(back[..] == payload[..back.len()], "C07: what is handed out is a prefix of the plaintext");
        }
        0 => {
            // reader: any chunking / interruption pattern of the inner reader
            let mut rd = NReader::new(&stream);
            rd.chunk = [1usize, 2, 3, 5, 7, 11, 4096, 1 << 30][s.below(8)];
            rd.interrupt_mask = [0u64, 1, 0b1010_1010, 0x5555_5555_5555_5555, 0b100][s.below(5)];
            let mut cr = match CryptoReader::new(&mut rd, key) { Ok(c) => c, Err(_) => panic!("C08: CryptoReader::new on intact data (chunked inner reader)") };
            let mut back = Vec::new();
            let want = [1usize, 13, 100_000, 1 << 20][s.below(4)];
            let mut buf = vec![0u8; want];
            loop {
                match cr.read(&mut buf) {
                    Ok(0) => break,
                    Ok(k) => back.extend_from_slice(&buf[..k]),
                    Err(e) if e.kind() == std::io::ErrorKind::Interrupted => continue,
                    Err(e) => panic!("C08: reading intact data through a chunking inner reader failed: {:?}", e),
                }
                assert!(back.len() <= n, "C08: more plaintext than was written");
            }
            assert!(back == payload, "C08/C01: the decrypted stream does not depend on how the inner reader chunks the data");
        }
        1 => {
            // reader: hard failure of the inner reader before the end
            if stream.is_empty() { return; }
            let at = { let c = [0usize, 5, 12, 13, 19, 20, 21, stream.len() / 2, stream.len() - 1]; c[s.below(c.len())].min(stream.len() - 1) };
            let mut rd = NReader::new(&stream);
            rd.fail_at = at;
            rd.chunk = [3usize, 1 << 30][s.below(2)];
            match CryptoReader::new(&mut rd, key) {
                Err(_) => {}
                Ok(mut cr) => {
                    let mut back = Vec::new();
                    let r = cr.read_to_end(&mut back);
                    assert!(r.is_err(), "C08: a failure of the inner reader at offset {} of {} surfaces as Err", at, stream.len());
                    assert!(back.len() <= n && back[..] == payload[..back.len()], "C08: what was handed out before the failure is a prefix of the plaintext");
                }
            }
        }
        2 => {
            // writer: hard failure of the inner writer at an offset
            let at = { let c = [0usize, 5, 12, 13, 20, stream.len() / 2, stream.len().saturating_sub(1)]; c[s.below(c.len())] };
            if at >= stream.len() { return; }
            let mut w = NWriter::new();
            w.fail_at = at;
            let mut failed = false;
            match CryptoWriter::new(&mut w, key) {
                Err(_) => failed = true,
                Ok(mut cw) => {
                    for c in payload.chunks(piece.max(1)) { if cw.write_all(c).is_err() { failed = true; break; } }
                    if cw.flush().is_err() { failed = true; }
                    // dropping after a failure must not panic
                }
            }
            assert!(failed, "C08: a failure of the inner writer at offset {} of {} surfaces as Err from write or flush", at, stream.len());
            assert!(w.buf.len() <= at, "C08: nothing accepted beyond the failure point");
        }
        _ => {
            // writer: short writes and interruptions of the inner writer do not change what can be read back
            let mut w = NWriter::new();
            w.chunk = [1usize, 3, 4096][s.below(3)];
            w.interrupt_mask = [0u64, 0b1010_1010, 0x5555_5555_5555_5555][s.below(3)];
            {
                let mut cw = match CryptoWriter::new(&mut w, key) { Ok(c) => c, Err(_) => panic!("C08: CryptoWriter::new with a short-writing inner writer") };
                for c in payload.chunks(piece.max(1)) { assert!(cw.write_all(c).is_ok(), "C08: short writes / interrupted calls of the inner writer are not failures"); }
                assert!(cw.flush().is_ok());
            }
            let mut rd = NReader::new(&w.buf);
            let mut cr = match CryptoReader::new(&mut rd, key) { Ok(c) => c, Err(_) => panic!("C08: stream written through a short-writing writer must be readable") };
            let mut back = Vec::new();
            assert!(cr.read_to_end(&mut back).is_ok() && back == payload, "C08: the stream does not depend on how the inner writer accepts the bytes");
        }
    }
}

/// C03 + C05 through the real containers WITH schema (plain and bzip2-compressed): a file saved by the version-i
/// definition loads in the version-j definition (the schema gate compares at the FILE's version, the payload is read
/// at the file's version) and yields the value the evolution rules prescribe.
pub fn evolve_container<Old: crate::family::Fam, New: crate::family::Fam + crate::family::Evolve<Old>, S: Src>(s: &mut S) {
    let old = Old::sym(s);
    let compressed = s.bool();
    let mut file: Vec<u8> = Vec::new();
    let r = if compressed { savefile::save_compressed(&mut file, Old::VERSION, &old) } else { savefile::save(&mut file, Old::VERSION, &old) };
    assert!(r.is_ok(), "saving at the old definition's version succeeds");
    match savefile::load::<New>(&mut &file[..], New::VERSION) {
        Ok(n) => {
            let exp = New::expect_from(&old);
            assert!(crate::family::same(&n, &exp, New::VERSION), "C03: retained fields equal, removed fields skipped, added fields default, converted fields converted ({} container, {} -> {})", if compressed { "compressed" } else { "plain" }, Old::NAME, New::NAME);
        }
        Err(e) => panic!("C03/C05: data saved at an earlier version must load in the later definition ({} container, {} -> {}): {:?}", if compressed { "compressed" } else { "plain" }, Old::NAME, New::NAME, e),
    }
}

/// C02 ("data written by one build is readable by every later build") + C13 (format-0 schema sections) through the
/// real containers: a file in library format 0 (as the first releases wrote it), plain and bzip2-compressed, with its
/// schema section, loads into today's definition. The bytes are fixed here as text (built by hand from the format
/// rules; the compressed body with an independent bzip2 implementation).
pub fn old_format_files<S: Src>(s: &mut S) {
    use crate::family_gen::SPlain;
    fn hex(s: &str) -> Vec<u8> { (0..s.len() / 2).map(|i| u8::from_str_radix(&s[2 * i..2 * i + 2], 16).unwrap()).collect() }
    let compressed = s.bool();
    let file = if compressed {
        hex("7361766566696c650000000000000001425a6839314159265359000108f1000009c3007d800800300020003100301829a1e8d96015235e839fed86e54745dc914e14240000423c40")
    } else {
        hex("7361766566696c650000000000000000010100000000000000530200000000000000010000000000000061030201000000000000006203060704030201")
    };
    match savefile::load::<SPlain>(&mut &file[..], 0) {
        Ok(v) => assert!(v.a == 7 && v.b == 0x0102_0304, "C02: a library-format-0 file ({}) loads to the value it was written from", if compressed { "compressed" } else { "plain" }),
        Err(e) => panic!("C02/C13: a library-format-0 file ({}) with its schema section must load: {:?}", if compressed { "compressed" } else { "plain" }, e),
    }
}

// ---- C05 for definitions using savefile_versions_as: the schema gate at a version above the conversion range -------
pub mod gate {
    use savefile_derive::Savefile;
    #[derive(Savefile, Debug, PartialEq)] pub struct TwinC { pub a: u8, pub b: u32 }
    #[derive(Savefile, Debug, PartialEq)] pub struct BothC { pub a: u8, pub b_old: u16, pub b: u32 }
    #[derive(Savefile, Debug, PartialEq)] pub struct OldC { pub a: u8, pub b: u16 }
}
pub fn gate_versions_as<S: Src>(s: &mut S) {
    use crate::family_gen::{HC1, HD2};
    let (a, b) = (s.u8(), s.u32());
    let mut file: Vec<u8> = Vec::new();
    match s.below(4) {
        0 => {
            // identical wire layout at the file's version => accepted, fields keep their values
            assert!(savefile::save(&mut file, 1, &gate::TwinC { a, b }).is_ok());
            match savefile::load::<HC1>(&mut &file[..], 1) { Ok(v) => assert!(v.a == a && v.b == b, "C05: accepted data keeps its values"), Err(e) => panic!("C05: a file with the identical wire layout must be accepted: {:?}", e) }
        }
        1 => {
            // a file that has BOTH the old-typed and the new-typed field does not have the layout of the current definition
            assert!(savefile::save(&mut file, 1, &gate::BothC { a, b_old: 9, b }).is_ok());
            assert!(savefile::load::<HC1>(&mut &file[..], 1).is_err(), "C05: a file whose layout differs (an extra u16 field) must be rejected, not misread");
        }
        2 => {
            // the old layout presented as a version-1 file is a mismatch as well
            assert!(savefile::save(&mut file, 1, &gate::OldC { a, b: b as u16 }).is_ok());
            assert!(savefile::load::<HC1>(&mut &file[..], 1).is_err(), "C05: the pre-conversion layout at the new version must be rejected");
        }
        _ => {
            assert!(savefile::save(&mut file, 2, &gate::TwinC { a, b }).is_ok());
            match savefile::load::<HD2>(&mut &file[..], 2) { Ok(v) => assert!(v.a == a && v.b == b), Err(e) => panic!("C05: a file with the identical wire layout must be accepted: {:?}", e) }
        }
    }
}
