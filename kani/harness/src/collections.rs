//! Library collection codecs whose behaviour depends on the collection's internal state or history.
use crate::refenc::{ref_bytes, RefEnc};
use crate::src::Src;
use savefile::prelude::*;
use savefile::{Deserializer, Serializer};
use std::collections::VecDeque;

/// VecDeque whose ring buffer is physically wrapped (push_back to capacity, pop_front, push_back again):
/// bytes == le(len,8) ++ elements in logical order; loading gives the same sequence (C01, C02).
pub fn deque_wrapped<S: Src>(s: &mut S) {
    let vals: [u16; 6] = [s.u16(), s.u16(), s.u16(), s.u16(), s.u16(), s.u16()];
    let mut d: VecDeque<u16> = VecDeque::with_capacity(4);
    let cap = d.capacity();
    d.push_back(vals[0]);
    d.push_back(vals[1]);
    d.push_back(vals[2]);
    let _ = d.pop_front();
    let _ = d.pop_front();
    // with capacity 4 the next two push_backs wrap around the end of the buffer
    d.push_back(vals[3]);
    d.push_back(vals[4]);
    d.push_front(vals[5]);
    let logical = [vals[5], vals[2], vals[3], vals[4]];
    assert!(d.len() == 4);
    if cap == 4 { assert!(!d.as_slices().1.is_empty(), "harness: the deque is wrapped"); }
    let mut buf: Vec<u8> = Vec::with_capacity(64);
    assert!(Serializer::bare_serialize(&mut buf, 0, &d).is_ok());
    let mut exp: Vec<u8> = Vec::with_capacity(64);
    exp.extend_from_slice(&4u64.to_le_bytes());
    for x in logical.iter() { x.renc(0, &mut exp); }
    assert!(buf == exp, "C02: VecDeque bytes == 64-bit length ++ elements in logical order");
    let mut rd: &[u8] = &buf[..];
    match Deserializer::bare_deserialize::<VecDeque<u16>>(&mut rd, 0) {
        Ok(b) => {
            assert!(b.len() == 4 && b[0] == logical[0] && b[1] == logical[1] && b[2] == logical[2] && b[3] == logical[3], "C01: VecDeque round trip");
            assert!(rd.is_empty(), "C01: exact consumption");
        }
        Err(_) => assert!(false, "C01: loading saved bytes must succeed"),
    }
}

use crate::family_gen::{E256, E257};
/// C02: discriminant width = 1 byte up to 256 variants, 2 bytes from 257 (boundary definitions, concrete values).
pub fn enum_width_boundary<S: Src>(_s: &mut S) {
    let mut b: Vec<u8> = Vec::with_capacity(8);
    assert!(Serializer::bare_serialize(&mut b, 0, &E256::V255).is_ok());
    assert!(b.len() == 1 && b[0] == 255, "C02: 256 variants use a one-byte discriminant");
    let mut c: Vec<u8> = Vec::with_capacity(8);
    assert!(Serializer::bare_serialize(&mut c, 0, &E257::V256).is_ok());
    assert!(c.len() == 2 && c[0] == 0 && c[1] == 1, "C02: 257 variants use a two-byte little-endian discriminant");
    let mut d: Vec<u8> = Vec::with_capacity(8);
    assert!(Serializer::bare_serialize(&mut d, 0, &E257::V3).is_ok());
    assert!(d.len() == 2 && d[0] == 3 && d[1] == 0);
}

/// cost probe / C12 building block: the schema of a flat derived struct lists its fields in order with the
/// primitive kinds of the Rust types
pub fn schema_shape_splain<S: Src>(_s: &mut S) {
    use savefile::{Schema, SchemaPrimitive};
    let schema = savefile::get_schema::<crate::family_gen::SPlain>(0);
    match schema {
        Schema::Struct(st) => {
            assert!(st.fields.len() == 2);
            assert!(matches!(*st.fields[0].value, Schema::Primitive(SchemaPrimitive::schema_u8)));
            assert!(matches!(*st.fields[1].value, Schema::Primitive(SchemaPrimitive::schema_u32)));
        }
        _ => assert!(false),
    }
}

/// C04/C18 for library containers of Packed values: if the container type claims to be bulk-copyable at a version,
/// its memory image must be byte-for-byte its field-by-field encoding at that version (fields in wire order, no
/// padding, element packedness respected).
fn packed_value_sound<T: Packed + RefEnc>(v: &T, ver: u32, what: &str) {
    let yes = unsafe { T::repr_c_optimization_safe(ver) }.is_yes();
    if yes {
        let exp = ref_bytes(v, ver);
        assert!(core::mem::size_of::<T>() == exp.len(), "C04: a bulk-copyable type has no padding and nothing that is not on the wire at this version");
        let raw = unsafe { core::slice::from_raw_parts(v as *const T as *const u8, core::mem::size_of::<T>()) };
        assert!(raw == &exp[..], "C04: memory image equals the field-by-field encoding (fields in wire order)");
    }
    let _ = what;
}

/// Tuples and arrays over primitives that rustc may reorder ((u8,bool,u8), (u32,char,u32)) or pad.
pub fn packed_tuples_prim<S: Src>(s: &mut S) {
    let ver = s.u32();
    let (a, b, c) = (s.u8(), s.u8(), s.u32());
    let flag = s.bool();
    let ch = s.char();
    packed_value_sound(&(a, flag, b), ver, "(u8,bool,u8)");
    packed_value_sound(&(c, ch, c), ver, "(u32,char,u32)");
    packed_value_sound(&(a, c), ver, "(u8,u32)");
    packed_value_sound(&(c, a), ver, "(u32,u8)");
    packed_value_sound(&(a, b), ver, "(u8,u8)");
    packed_value_sound(&(a, s.u16(), b), ver, "(u8,u16,u8)");
    packed_value_sound(&[(a, flag, b), (b, flag, a)], ver, "[(u8,bool,u8);2]");
}

/// A versioned struct (SVerOrder: fields added at versions 1 and 2) as element POS of a tuple of ARITY elements
/// (ARITY 0 = [T;2]), at version VER <= its current one: one harness instance per (ARITY, POS, VER) keeps CBMC fast.
pub fn packed_tuples_ver<S: Src, const ARITY: u8, const POS: u8, const VER: u32>(s: &mut S) {
    use crate::family::Fam;
    use crate::family_gen::SVerOrder;
    let x = SVerOrder::sym(s);
    let c = s.u32();
    match (ARITY, POS) {
        (0, _) => packed_value_sound(&[x.clone(), x], VER, "[SVerOrder;2]"),
        (1, _) => packed_value_sound(&(x,), VER, "(SVerOrder,)"),
        (2, 0) => packed_value_sound(&(x, c), VER, "(SVerOrder,u32)"),
        (2, _) => packed_value_sound(&(c, x), VER, "(u32,SVerOrder)"),
        (3, 0) => packed_value_sound(&(x, c, c), VER, "(SVerOrder,u32,u32)"),
        (3, 1) => packed_value_sound(&(c, x, c), VER, "(u32,SVerOrder,u32)"),
        _ => packed_value_sound(&(c, c, x), VER, "(u32,u32,SVerOrder)"),
    }
}

/// Vec<u64> / Vec<u32> (bulk path): arbitrary 64-bit declared length with a short body: error, never a panic /
/// overflow in `element size * length`, never more elements than the input could encode.
pub fn mal_vec_wide_len<S: Src>(s: &mut S) {
    let n = s.u64();
    let body: [u8; 8] = s.bytes::<8>();
    let mut bytes = n.to_le_bytes().to_vec();
    bytes.extend_from_slice(&body);
    // genuine out-of-memory on absurd lengths is excluded by the property: keep allocation sizes representable
    s.assume(n <= 2 || n >= (1u64 << 60));
    let mut rd: &[u8] = &bytes[..];
    if let Ok(v) = Deserializer::bare_deserialize::<Vec<u64>>(&mut rd, 0) {
        assert!(v.len() <= 1, "C06: never more elements than the input could have encoded");
    }
    let mut rd: &[u8] = &bytes[..];
    if let Ok(v) = Deserializer::bare_deserialize::<Vec<u32>>(&mut rd, 0) {
        assert!(v.len() <= 2, "C06: never more elements than the input could have encoded");
    }
}

/// BitVec (new storage format): arbitrary declared bit count over a storage of 4..=8 bytes (also byte counts that are
/// not a whole number of 32-bit words): error, or a BitVec that claims no more bits than the storage it actually
/// holds (and therefore no more than the input encodes); never a panic.
pub fn mal_bitvec_len<S: Src, const NB: usize>(s: &mut S) {
    let numbits = s.u64();
    let nb = NB;
    let body: [u8; 8] = s.u64().to_le_bytes();
    let mut bytes = numbits.to_le_bytes().to_vec();
    bytes.extend_from_slice(&((1u64 << 63) | nb as u64).to_le_bytes());
    bytes.extend_from_slice(&body[..nb]);
    let mut rd: &[u8] = &bytes[..];
    if let Ok(v) = Deserializer::bare_deserialize::<bit_vec::BitVec>(&mut rd, 0) {
        assert!(v.len() <= v.storage().len() * 32, "C06: a loaded BitVec never claims more bits than its storage holds");
        assert!(v.len() <= nb * 8, "C06: a loaded BitVec never claims more bits than the input could have encoded");
    }
}

/// native enumeration over the storage sizes 4..=8 bytes
pub fn mal_bitvec_all<S: Src>(s: &mut S) {
    match s.below(5) { 0 => mal_bitvec_len::<S, 4>(s), 1 => mal_bitvec_len::<S, 5>(s), 2 => mal_bitvec_len::<S, 6>(s), 3 => mal_bitvec_len::<S, 7>(s), _ => mal_bitvec_len::<S, 8>(s) }
}
