//! C09 / C10: contracts on the REAL macro-generated ABI trampolines (no version negotiation involved):
//!  * callee contract: `<dyn T as AbiExportable>::call(obj, m, ev, mask, data, ..)` with
//!    data = le(ev,4) ++ enc(args, ev) invokes the implementation with exactly those argument values and hands
//!    the receiver Success{ le(ev,4) ++ enc(ret, ev) };
//!  * caller contract: calling method m on a hand-built AbiConnection emits RegularCall with the callee's method
//!    number, the template's version and mask and data = le(ev,4) ++ enc(args, ev) (a raw pointer for reference
//!    arguments whose mask bit is set) and returns the value parsed from the reply.
//! The caller's postcondition is the callee's precondition, so the composition is the transparent call.
use crate::refenc::{ref_bytes, RefEnc};
use crate::src::Src;
use savefile::prelude::*;
use savefile::{AbiMethodInfo, ReceiverType, Schema};
use savefile_abi::{
    abi_entry_light, AbiConnection, AbiConnectionMethod, AbiConnectionTemplate, AbiExportable, AbiProtocol, Owning,
    RawAbiCallResult, TraitObject,
};
use savefile_derive::{savefile_abi_exportable, Savefile};
use std::marker::PhantomData;

/// argument / return type whose encoding depends on the negotiated version
#[derive(Savefile, Clone, Debug, PartialEq)]
pub struct Pt {
    pub x: u32,
    #[savefile_versions = "1.."]
    pub y: u32,
}
impl RefEnc for Pt {
    fn renc(&self, v: u32, out: &mut Vec<u8>) {
        self.x.renc(v, out);
        if v >= 1 { self.y.renc(v, out); }
    }
}
/// what a version-`ev` peer can know of a Pt: y takes its default when the sender's format lacks it
fn at_version(p: &Pt, ev: u32) -> Pt { Pt { x: p.x, y: if ev >= 1 { p.y } else { 0 } } }

#[savefile_abi_exportable(version = 1)]
pub trait Calc {
    fn add(&self, a: u32, b: u16) -> u32;
    fn pt(&self, p: Pt) -> Pt;
    fn by_ref(&self, p: &Pt) -> u32;
}

// ---- recording implementation ----------------------------------------------------------------
pub static mut SEEN_A: u32 = 0;
pub static mut SEEN_B: u16 = 0;
pub static mut SEEN_PX: u32 = 0;
pub static mut SEEN_PY: u32 = 0;
pub static mut SEEN_CALLS: u32 = 0;
pub static mut RET_U32: u32 = 0;
pub static mut RET_PX: u32 = 0;
pub static mut RET_PY: u32 = 0;
pub static mut DROPS: u32 = 0;

pub struct Rec;
impl Drop for Rec { fn drop(&mut self) { unsafe { DROPS += 1; } } }
impl Calc for Rec {
    fn add(&self, a: u32, b: u16) -> u32 { unsafe { SEEN_A = a; SEEN_B = b; SEEN_CALLS += 1; RET_U32 } }
    fn pt(&self, p: Pt) -> Pt { unsafe { SEEN_PX = p.x; SEEN_PY = p.y; SEEN_CALLS += 1; Pt { x: RET_PX, y: RET_PY } } }
    fn by_ref(&self, p: &Pt) -> u32 { unsafe { SEEN_PX = p.x; SEEN_PY = p.y; SEEN_CALLS += 1; RET_U32 } }
}

// ---- reply capture (callee side) --------------------------------------------------------------
pub struct Reply { pub kind: u8, pub len: usize, pub bytes: [u8; 32] }
impl Reply { pub fn new() -> Reply { Reply { kind: 0xff, len: 0, bytes: [0; 32] } } }
unsafe extern "C" fn capture(outcome: *const RawAbiCallResult, rr: *mut ()) {
    let reply = &mut *(rr as *mut Reply);
    match &*outcome {
        RawAbiCallResult::Success { data, len } => {
            reply.kind = 0;
            reply.len = *len;
            let mut i = 0;
            while i < *len && i < 32 { reply.bytes[i] = *data.add(i); i += 1; }
        }
        RawAbiCallResult::Panic(_) => reply.kind = 1,
        RawAbiCallResult::AbiError(_) => reply.kind = 2,
    }
}

fn reset() { unsafe { SEEN_A = 0; SEEN_B = 0; SEEN_PX = 0; SEEN_PY = 0; SEEN_CALLS = 0; DROPS = 0; } }

/// callee contract, plain arguments (method 0)
pub fn abi_callee_add<S: Src>(s: &mut S) {
    let (a, b, ret, ev) = (s.u32(), s.u16(), s.u32(), s.u32());
    s.assume(ev <= 1);
    reset();
    unsafe { RET_U32 = ret; }
    let obj: Box<dyn Calc> = Box::new(Rec);
    let to = TraitObject::new(obj);
    let mut data = ev.to_le_bytes().to_vec();
    a.renc(ev, &mut data);
    b.renc(ev, &mut data);
    let mut reply = Reply::new();
    let r = <dyn Calc as AbiExportable>::call(to, 0, ev, 0, &data, &mut reply as *mut Reply as *mut (), capture);
    assert!(r.is_ok());
    unsafe { assert!(SEEN_CALLS == 1 && SEEN_A == a && SEEN_B == b, "C09: implementation receives the argument values passed"); }
    let mut exp = ev.to_le_bytes().to_vec();
    ret.renc(ev, &mut exp);
    assert!(reply.kind == 0 && reply.len == exp.len() && reply.bytes[..reply.len] == exp[..], "C09/C10: reply = le(ev) ++ enc(ret, ev)");
    // ownership: the boxed implementation behind the type-erased TraitObject is dropped exactly once
    // (abi_entry_light's DropInstance arm does exactly this inside catch_unwind, which Kani cannot compile)
    unsafe { drop(Box::from_raw(to.as_mut_ptr::<dyn Calc>())); }
    unsafe { assert!(DROPS == 1, "C09: every owned object is dropped exactly once"); }
}

/// callee contract, versioned struct by value and as return value (method 1): C10
pub fn abi_callee_pt<S: Src, const EV: u32>(s: &mut S) {
    let p = Pt { x: s.u32(), y: s.u32() };
    let ret = Pt { x: s.u32(), y: s.u32() };
    let ev = EV;
    reset();
    unsafe { RET_PX = ret.x; RET_PY = ret.y; }
    let obj: Box<dyn Calc> = Box::new(Rec);
    let to = TraitObject::new(obj);
    let mut data = ev.to_le_bytes().to_vec();
    p.renc(ev, &mut data);
    let mut reply = Reply::new();
    let r = <dyn Calc as AbiExportable>::call(to, 1, ev, 0, &data, &mut reply as *mut Reply as *mut (), capture);
    assert!(r.is_ok());
    let seen = at_version(&p, ev);
    unsafe { assert!(SEEN_CALLS == 1 && SEEN_PX == seen.x && SEEN_PY == seen.y, "C10: retained fields unchanged, fields the sender lacks take their default"); }
    let mut exp = ev.to_le_bytes().to_vec();
    ret.renc(ev, &mut exp);
    assert!(reply.kind == 0 && reply.len == exp.len() && reply.bytes[..reply.len] == exp[..],
        "C10: every return value is transmitted in the negotiated version's format");
    unsafe { drop(Box::from_raw(to.as_mut_ptr::<dyn Calc>())); }
}

/// callee contract, reference argument: serialized when the mask bit is clear, raw pointer when set (C09, C11)
pub fn abi_callee_ref<S: Src>(s: &mut S) {
    let p = Pt { x: s.u32(), y: s.u32() };
    let ret = s.u32();
    let by_ptr = s.bool();
    let ev: u32 = 1;
    reset();
    unsafe { RET_U32 = ret; }
    let obj: Box<dyn Calc> = Box::new(Rec);
    let to = TraitObject::new(obj);
    let mut data = ev.to_le_bytes().to_vec();
    if by_ptr {
        data.extend_from_slice(&(&p as *const Pt as usize as u64).to_le_bytes());
    } else {
        p.renc(ev, &mut data);
    }
    let mut reply = Reply::new();
    let r = <dyn Calc as AbiExportable>::call(to, 2, ev, if by_ptr { 1 } else { 0 }, &data, &mut reply as *mut Reply as *mut (), capture);
    assert!(r.is_ok());
    unsafe { assert!(SEEN_CALLS == 1 && SEEN_PX == p.x && SEEN_PY == p.y, "C09/C11: same values whether by reference or serialized"); }
    let mut exp = ev.to_le_bytes().to_vec();
    ret.renc(ev, &mut exp);
    assert!(reply.kind == 0 && reply.len == exp.len() && reply.bytes[..reply.len] == exp[..]);
    unsafe { drop(Box::from_raw(to.as_mut_ptr::<dyn Calc>())); }
}

/// unknown method number: an error result, never a panic
pub fn abi_callee_unknown_method<S: Src>(s: &mut S) {
    let m = s.u16();
    s.assume(m >= 3);
    reset();
    let obj: Box<dyn Calc> = Box::new(Rec);
    let to = TraitObject::new(obj);
    let data = 1u32.to_le_bytes().to_vec();
    let mut reply = Reply::new();
    let r = <dyn Calc as AbiExportable>::call(to, m, 1, 0, &data, &mut reply as *mut Reply as *mut (), capture);
    assert!(r.is_err());
    unsafe { assert!(SEEN_CALLS == 0); }
    unsafe { drop(Box::from_raw(to.as_mut_ptr::<dyn Calc>())); }
}

// ---- recording entry point (caller side) ------------------------------------------------------
pub static mut E_CALLS: u32 = 0;
pub static mut E_METHOD: u16 = 0;
pub static mut E_VERSION: u32 = 0;
pub static mut E_MASK: u64 = 0;
pub static mut E_LEN: usize = 0;
pub static mut E_DATA: [u8; 32] = [0; 32];
pub static mut E_REPLY: [u8; 16] = [0; 16];
pub static mut E_REPLY_LEN: usize = 0;
pub static mut E_DROPS: u32 = 0;

unsafe extern "C" fn recording_entry(flag: AbiProtocol) {
    match flag {
        AbiProtocol::RegularCall { trait_object: _, compatibility_mask, data, data_length, abi_result, receiver, effective_version, method_number } => {
            E_CALLS += 1;
            E_METHOD = method_number;
            E_VERSION = effective_version;
            E_MASK = compatibility_mask;
            E_LEN = data_length;
            let mut i = 0;
            while i < data_length && i < 32 { E_DATA[i] = *data.add(i); i += 1; }
            let outcome = RawAbiCallResult::Success { data: E_REPLY.as_ptr(), len: E_REPLY_LEN };
            receiver(&outcome as *const RawAbiCallResult, abi_result);
        }
        AbiProtocol::DropInstance { .. } => { E_DROPS += 1; }
        _ => {}
    }
}

fn dummy_info() -> AbiMethodInfo {
    AbiMethodInfo { return_value: Schema::Undefined, receiver: ReceiverType::Shared, arguments: Vec::new(), async_trait_heuristic: false }
}

fn connection(ev: u32, numbers: [u16; 3], masks: [u64; 3], owning: Owning) -> AbiConnection<dyn Calc> {
    let methods = vec![
        AbiConnectionMethod { method_name: String::new(), caller_info: dummy_info(), callee_method_number: Some(numbers[0]), compatibility_mask: masks[0] },
        AbiConnectionMethod { method_name: String::new(), caller_info: dummy_info(), callee_method_number: Some(numbers[1]), compatibility_mask: masks[1] },
        AbiConnectionMethod { method_name: String::new(), caller_info: dummy_info(), callee_method_number: Some(numbers[2]), compatibility_mask: masks[2] },
    ];
    AbiConnection {
        template: AbiConnectionTemplate { effective_version: ev, methods: Box::leak(methods.into_boxed_slice()), entry: recording_entry },
        owning,
        trait_object: TraitObject::zero(),
        phantom: PhantomData,
    }
}

fn e_reset() { unsafe { E_CALLS = 0; E_DROPS = 0; E_LEN = 0; } }

/// caller contract, plain arguments
pub fn abi_caller_add<S: Src>(s: &mut S) {
    let (a, b, ret, ev) = (s.u32(), s.u16(), s.u32(), s.u32());
    let number = s.u16();
    s.assume(ev <= 1);
    e_reset();
    let mut rep = ev.to_le_bytes().to_vec();
    ret.renc(ev, &mut rep);
    unsafe { let mut i = 0; while i < rep.len() { E_REPLY[i] = rep[i]; i += 1; } E_REPLY_LEN = rep.len(); }
    let conn = connection(ev, [number, 7, 9], [0, 0, 0], Owning::Owned);
    let got = conn.add(a, b);
    assert!(got == ret, "C09: the caller receives the returned value");
    let mut exp = ev.to_le_bytes().to_vec();
    a.renc(ev, &mut exp);
    b.renc(ev, &mut exp);
    unsafe {
        assert!(E_CALLS == 1 && E_METHOD == number && E_VERSION == ev && E_MASK == 0, "C09/C10: callee's method number, negotiated version, mask");
        assert!(E_LEN == exp.len() && E_DATA[..E_LEN] == exp[..], "C09/C10: data = le(ev) ++ enc(args, ev)");
    }
    drop(conn);
    unsafe { assert!(E_DROPS == 1, "C09: an owned connection drops the remote object exactly once"); }
}

/// caller contract, versioned struct by value and returned (C10)
pub fn abi_caller_pt<S: Src, const EV: u32>(s: &mut S) {
    let p = Pt { x: s.u32(), y: s.u32() };
    let ret = Pt { x: s.u32(), y: s.u32() };
    let ev = EV;
    e_reset();
    let mut rep = ev.to_le_bytes().to_vec();
    ret.renc(ev, &mut rep);
    unsafe { let mut i = 0; while i < rep.len() { E_REPLY[i] = rep[i]; i += 1; } E_REPLY_LEN = rep.len(); }
    let conn = connection(ev, [0, 1, 2], [0, 0, 0], Owning::NotOwned);
    let got = conn.pt(p.clone());
    let exp_ret = at_version(&ret, ev);
    assert!(got == exp_ret, "C10: return value parsed in the version stated in the reply");
    let mut exp = ev.to_le_bytes().to_vec();
    p.renc(ev, &mut exp);
    unsafe {
        assert!(E_CALLS == 1 && E_METHOD == 1 && E_VERSION == ev);
        assert!(E_LEN == exp.len() && E_DATA[..E_LEN] == exp[..], "C10: arguments serialized at the effective version");
    }
    drop(conn);
    unsafe { assert!(E_DROPS == 0, "C09: a borrowed connection never drops the remote object"); }
}

/// caller contract, reference argument: pointer iff the mask bit is set (C09, C11)
pub fn abi_caller_ref<S: Src, const BY_PTR: bool>(s: &mut S) {
    let p = Pt { x: s.u32(), y: s.u32() };
    let ret = s.u32();
    let by_ptr = BY_PTR;
    let ev: u32 = 1;
    e_reset();
    let mut rep = ev.to_le_bytes().to_vec();
    ret.renc(ev, &mut rep);
    unsafe { let mut i = 0; while i < rep.len() { E_REPLY[i] = rep[i]; i += 1; } E_REPLY_LEN = rep.len(); }
    let conn = connection(ev, [0, 1, 2], [0, 0, if by_ptr { 1 } else { 0 }], Owning::NotOwned);
    let got = conn.by_ref(&p);
    assert!(got == ret);
    let mut exp = ev.to_le_bytes().to_vec();
    if by_ptr { exp.extend_from_slice(&(&p as *const Pt as usize as u64).to_le_bytes()); } else { p.renc(ev, &mut exp); }
    unsafe {
        assert!(E_CALLS == 1 && E_METHOD == 2 && E_MASK == if by_ptr { 1 } else { 0 });
        assert!(E_LEN == exp.len() && E_DATA[..E_LEN] == exp[..], "C11: an argument travels as a pointer iff its mask bit is set");
    }
}
