//! Kani harness crate for avl/savefile (DESIGN.md section 3.3).
//! Every harness body is an ordinary generic function `fn(&mut impl Src)`; under cfg(kani) `Src`
//! yields `kani::any()`, in `src/bin/replay.rs` it yields the bytes of a counterexample.
#![allow(dead_code, unused_imports, unused_variables, unused_mut, clippy::all)]
extern crate alloc;

pub mod src;
pub mod refenc;
pub mod leaves;

#[macro_use]
mod reg;

include!("registry.rs");
