//! Kani harness crate for avl/savefile (DESIGN.md section 3.3).
//! Every harness body is an ordinary generic function `fn(&mut impl Src)`; under cfg(kani) `Src`
//! yields `kani::any()`, in `src/bin/replay.rs` it yields the bytes of a counterexample.
#![allow(dead_code, unused_imports, unused_variables, unused_mut, clippy::all)]
extern crate alloc;

pub mod src;
pub mod refenc;
pub mod leaves;
pub mod family;
pub mod family_gen;
pub mod iox;
pub mod containers;
pub mod malformed;
pub mod schemaread;
pub mod abi;
pub mod collections;
pub mod ledger;
pub mod schemapairs;

#[macro_use]
mod reg;

include!("registry.rs");
include!("registry_family.rs");
include!("registry_misc.rs");

pub fn registry() -> Vec<(&'static str, fn(&mut crate::src::ReplaySrc))> {
    let mut v = registry_leaves();
    v.extend(registry_family());
    v.extend(registry_misc());
    v
}

// Native-only bounded harnesses (small-scope enumeration; see DESIGN.md section 5). Everything native-only lives in
// src/native_*.rs and is compiled out under Kani, so editing it never changes what Kani verifies.
#[cfg(not(kani))]
include!("native_registry.rs");
