//! Kani harness crate for avl/savefile (DESIGN.md section 3.3).
//! Every harness body is an ordinary generic function `fn(&mut impl Src)`; under cfg(kani) `Src`
//! yields `kani::any()`, in `src/bin/replay.rs` it yields the bytes of a counterexample.
#![allow(dead_code, unused_imports, unused_variables, unused_mut, clippy::all)]
extern crate alloc;

pub mod src;
pub mod refenc;
pub mod leaves;
pub mod family;
pub mod family_gen;
pub mod iox;
pub mod containers;
pub mod malformed;
pub mod schemaread;
pub mod abi;
pub mod collections;
pub mod ledger;
pub mod schemapairs;
#[cfg(not(kani))]
pub mod native_misc;

#[macro_use]
mod reg;

include!("registry.rs");
include!("registry_family.rs");
include!("registry_misc.rs");

pub fn registry() -> Vec<(&'static str, fn(&mut crate::src::ReplaySrc))> {
    let mut v = registry_leaves();
    v.extend(registry_family());
    v.extend(registry_misc());
    v
}

// Native-only bounded harnesses (small-scope enumeration; CBMC cannot handle the heap-heavy schema code).
// name, body, properties, functions, bound  -- parsed by tools/native_run.py from the `n(` lines below.
#[cfg(not(kani))]
include!("native_family.rs");
#[cfg(not(kani))]
pub fn native_registry() -> Vec<(&'static str, fn(&mut crate::src::EnumSrc))> {
    let mut v = native_family_registry();
    v.extend(native_misc_registry());
    v
}
#[cfg(not(kani))]
fn native_misc_registry() -> Vec<(&'static str, fn(&mut crate::src::EnumSrc))> {
    vec![
        // n(nschema_library, "C12", "hand-written WithSchema impls: Vec, tuples, Option, arrays, Box, String, BTreeMap, BTreeSet, VecDeque, Duration", "small-scope values");
        ("nschema_library", (|s: &mut crate::src::EnumSrc| crate::schemaread::schema_library(s)) as fn(&mut crate::src::EnumSrc)),
        // n(nschema_result, "C12", "WithSchema for Result<T,R> (get_result_schema); Serialize for Result", "small-scope values");
        ("nschema_result", (|s: &mut crate::src::EnumSrc| crate::schemaread::schema_result(s)) as fn(&mut crate::src::EnumSrc)),
        // n(nschema_hashmap_guard, "C12", "WithSchema for HashMap<K,V> (recursion guard)", "small-scope values");
        ("nschema_hashmap_guard", (|s: &mut crate::src::EnumSrc| crate::schemaread::schema_hashmap_guard(s)) as fn(&mut crate::src::EnumSrc)),
        // n(nschema_socketaddr, "C12", "WithSchema for SocketAddr; Serialize for SocketAddr", "small-scope values");
        ("nschema_socketaddr", (|s: &mut crate::src::EnumSrc| crate::schemaread::schema_socketaddr(s)) as fn(&mut crate::src::EnumSrc)),
        // n(nschema_evermid_old, "C12", "derive WithSchema: variants filtered by version (EVerMid at version 1)", "all values representable at version 1");
        ("nschema_evermid_old", (|s: &mut crate::src::EnumSrc| crate::schemaread::schema_evermid_old(s)) as fn(&mut crate::src::EnumSrc)),
        // n(nfault_library, "C08", "Serializer::save_impl; Deserializer::load_impl; savefile::save; savefile::load; Serialize/Deserialize for String, Vec<T>, Option, tuples, BTreeMap, Box<[T]>", "6 container shapes, lengths <= 40; every write-failure offset, flush failure, short writes 1..3 with Interrupted patterns, every read-failure offset, chunked reads 1..4");
        ("nfault_library", (|s: &mut crate::src::EnumSrc| crate::native_misc::fault_library(s)) as fn(&mut crate::src::EnumSrc)),
        // n(ntrunc_library, "C07", "Deserializer::read_string; Deserializer::read_usize; regular_deserialize_vec; Deserialize for Vec<T> (bulk path); Deserializer::load_impl", "String/Vec<u8>/Vec<u32>/tuple/BTreeMap with lengths 0..70000; every cut for files <= 96 bytes, else cuts around both ends, every power of two, 4096/8192 from the end");
        ("ntrunc_library", (|s: &mut crate::src::EnumSrc| crate::native_misc::trunc_library(s)) as fn(&mut crate::src::EnumSrc)),
        // n(nintro_library, "C17", "Introspect::introspect_len; Introspect::introspect_child for the hand-written impls (collections, maps, sets, Option, Result, Box, Rc, Arc, RefCell, Mutex, RwLock, tuples, arrays, Schema, BitVec, ArrayVec, SmallVec, IndexMap, IndexSet, Range)", "32 value shapes with <= 3 elements (incl. a poisoned std Mutex and a RefCell with a shared borrow outstanding), checked recursively to depth 3, indices 0..len, len..2len+1 and near usize::MAX");
        ("nintro_library", (|s: &mut crate::src::EnumSrc| crate::native_misc::intro_library(s)) as fn(&mut crate::src::EnumSrc)),
        // n(nintro_navigate, "C17", "Introspector::do_introspect; Introspector::impl_get_frames; IntrospectionResult::total_index; IntrospectionResult::total_len", "3 objects, sequences of <= 3 commands (first 2,000,000 combinations in enumeration order) (Nothing, Up, SelectNth, ExpandElement) with depths/indices from {0,1,2,5,usize::MAX}, with and without child limit");
        ("nintro_navigate", (|s: &mut crate::src::EnumSrc| crate::native_misc::intro_navigate(s)) as fn(&mut crate::src::EnumSrc)),
        // n(pairs_diff, "C05,C13,C15", "diff_schema; diff_enum; diff_fields; diff_primitive", "pairs of one-variant enums with <= 2 primitive fields; discriminants/widths from small domains");
        ("pairs_diff", (|s: &mut crate::src::EnumSrc| crate::schemapairs::diff_pairs(s)) as fn(&mut crate::src::EnumSrc)),
        // n(pairs_layout, "C11", "Schema::layout_compatible; SchemaEnum/Variant/Field::layout_compatible", "pairs of one-variant enums with <= 2 primitive fields, two offsets");
        ("pairs_layout", (|s: &mut crate::src::EnumSrc| crate::schemapairs::layout_pairs(s)) as fn(&mut crate::src::EnumSrc)),
        // n(ledger_compat, "C15", "AbiTraitDefinition::verify_backward_compatible; verify_compatible_with_old_impl; diff_schema", "one recorded method, <= 2 arguments of 3 primitive kinds, async flag, presence");
        ("ledger_compat", (|s: &mut crate::src::EnumSrc| crate::ledger::ledger_compat(s)) as fn(&mut crate::src::EnumSrc)),
    ]
}
