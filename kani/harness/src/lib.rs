//! Kani harness crate for avl/savefile (DESIGN.md section 3.3).
//! Every harness body is an ordinary generic function `fn(&mut impl Src)`; under cfg(kani) `Src`
//! yields `kani::any()`, in `src/bin/replay.rs` it yields the bytes of a counterexample.
#![allow(dead_code, unused_imports, unused_variables, unused_mut, clippy::all)]
extern crate alloc;

pub mod src;
pub mod refenc;
pub mod leaves;
pub mod family;
pub mod family_gen;
pub mod iox;
pub mod containers;
pub mod malformed;
pub mod schemaread;
pub mod abi;
pub mod collections;
pub mod ledger;
pub mod schemapairs;

#[macro_use]
mod reg;

include!("registry.rs");
include!("registry_family.rs");
include!("registry_misc.rs");

pub fn registry() -> Vec<(&'static str, fn(&mut crate::src::ReplaySrc))> {
    let mut v = registry_leaves();
    v.extend(registry_family());
    v.extend(registry_misc());
    v
}

/// Native-only bounded harnesses (small-scope enumeration; CBMC cannot handle the heap-heavy schema code).
/// name, body, properties, functions, bound  -- parsed by tools/native_run.py from the `n(` lines below.
include!("native_family.rs");
pub fn native_registry() -> Vec<(&'static str, fn(&mut crate::src::EnumSrc))> {
    let mut v = native_family_registry();
    v.extend(native_misc_registry());
    v
}
fn native_misc_registry() -> Vec<(&'static str, fn(&mut crate::src::EnumSrc))> {
    vec![
        // n(nschema_library, "C12", "hand-written WithSchema impls: Vec, tuples, Option, arrays, Box, String, BTreeMap, BTreeSet, VecDeque, Duration", "small-scope values");
        ("nschema_library", (|s: &mut crate::src::EnumSrc| crate::schemaread::schema_library(s)) as fn(&mut crate::src::EnumSrc)),
        // n(nschema_result, "C12", "WithSchema for Result<T,R> (get_result_schema); Serialize for Result", "small-scope values");
        ("nschema_result", (|s: &mut crate::src::EnumSrc| crate::schemaread::schema_result(s)) as fn(&mut crate::src::EnumSrc)),
        // n(nschema_hashmap_guard, "C12", "WithSchema for HashMap<K,V> (recursion guard)", "small-scope values");
        ("nschema_hashmap_guard", (|s: &mut crate::src::EnumSrc| crate::schemaread::schema_hashmap_guard(s)) as fn(&mut crate::src::EnumSrc)),
        // n(nschema_socketaddr, "C12", "WithSchema for SocketAddr; Serialize for SocketAddr", "small-scope values");
        ("nschema_socketaddr", (|s: &mut crate::src::EnumSrc| crate::schemaread::schema_socketaddr(s)) as fn(&mut crate::src::EnumSrc)),
        // n(nschema_evermid_old, "C12", "derive WithSchema: variants filtered by version (EVerMid at version 1)", "all values representable at version 1");
        ("nschema_evermid_old", (|s: &mut crate::src::EnumSrc| crate::schemaread::schema_evermid_old(s)) as fn(&mut crate::src::EnumSrc)),
        // n(pairs_diff, "C05,C13,C15", "diff_schema; diff_enum; diff_fields; diff_primitive", "pairs of one-variant enums with <= 2 primitive fields; discriminants/widths from small domains");
        ("pairs_diff", (|s: &mut crate::src::EnumSrc| crate::schemapairs::diff_pairs(s)) as fn(&mut crate::src::EnumSrc)),
        // n(pairs_layout, "C11", "Schema::layout_compatible; SchemaEnum/Variant/Field::layout_compatible", "pairs of one-variant enums with <= 2 primitive fields, two offsets");
        ("pairs_layout", (|s: &mut crate::src::EnumSrc| crate::schemapairs::layout_pairs(s)) as fn(&mut crate::src::EnumSrc)),
        // n(ledger_compat, "C15", "AbiTraitDefinition::verify_backward_compatible; verify_compatible_with_old_impl; diff_schema", "one recorded method, <= 2 arguments of 3 primitive kinds, async flag, presence");
        ("ledger_compat", (|s: &mut crate::src::EnumSrc| crate::ledger::ledger_compat(s)) as fn(&mut crate::src::EnumSrc)),
    ]
}
