// h(name, unwind, body, "complete"|"bounded", "properties", "functions under contract", "bound text");
harnesses! { proofs, registry_leaves;
    h(leaf_u8, 20, leaves::leaf_u8, "complete", "C01,C02", "Serializer::write_u8; Deserializer::read_u8; <u8 as Serialize>::serialize; <u8 as Deserialize>::deserialize; Serializer::bare_serialize; Deserializer::bare_deserialize", "");
    h(leaf_i8, 20, leaves::leaf_i8, "complete", "C01,C02", "Serializer::write_i8; Deserializer::read_i8", "");
    h(leaf_u16, 20, leaves::leaf_u16, "complete", "C01,C02", "Serializer::write_u16; Deserializer::read_u16", "");
    h(leaf_i16, 20, leaves::leaf_i16, "complete", "C01,C02", "Serializer::write_i16; Deserializer::read_i16", "");
    h(leaf_u32, 20, leaves::leaf_u32, "complete", "C01,C02", "Serializer::write_u32; Deserializer::read_u32", "");
    h(leaf_i32, 20, leaves::leaf_i32, "complete", "C01,C02", "Serializer::write_i32; Deserializer::read_i32", "");
    h(leaf_u64, 20, leaves::leaf_u64, "complete", "C01,C02", "Serializer::write_u64; Deserializer::read_u64", "");
    h(leaf_i64, 20, leaves::leaf_i64, "complete", "C01,C02", "Serializer::write_i64; Deserializer::read_i64", "");
    h(leaf_u128, 20, leaves::leaf_u128, "complete", "C01,C02", "Serializer::write_u128; Deserializer::read_u128", "");
    h(leaf_i128, 20, leaves::leaf_i128, "complete", "C01,C02", "Serializer::write_i128; Deserializer::read_i128", "");
    h(leaf_usize, 20, leaves::leaf_usize, "complete", "C01,C02", "Serializer::write_usize; Deserializer::read_usize", "");
    h(leaf_isize, 20, leaves::leaf_isize, "complete", "C01,C02", "Serializer::write_isize; Deserializer::read_isize", "");
    h(leaf_bool, 20, leaves::leaf_bool, "complete", "C01,C02", "Serializer::write_bool; Deserializer::read_bool", "");
    h(leaf_char, 20, leaves::leaf_char, "complete", "C01,C02", "<char as Serialize>::serialize; <char as Deserialize>::deserialize", "");
    h(leaf_f32, 20, leaves::leaf_f32, "complete", "C01,C02", "Serializer::write_f32; Deserializer::read_f32", "");
    h(leaf_f64, 20, leaves::leaf_f64, "complete", "C01,C02", "Serializer::write_f64; Deserializer::read_f64", "");
}
