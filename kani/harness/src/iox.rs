//! Instrumented Write / Read used by the container, truncation and fault harnesses.
//! All errors are built with `io::Error::from(kind)` (never `Error::new`: CBMC diverges on the boxed
//! custom-error drop glue, see DESIGN.md section 2).
use std::io::{self, ErrorKind, Read, Write};

/// Reader over a slice that counts what was consumed and delivers at most `chunk` bytes per call.
/// `interrupt_mask`: bit i set => the i-th call returns ErrorKind::Interrupted once (retryable).
pub struct ChunkReader<'a> {
    pub data: &'a [u8],
    pub pos: usize,
    pub chunk: usize,
    pub calls: u32,
    pub interrupt_mask: u32,
}
impl<'a> ChunkReader<'a> {
    pub fn new(data: &'a [u8]) -> Self { ChunkReader { data, pos: 0, chunk: usize::MAX, calls: 0, interrupt_mask: 0 } }
}
impl<'a> Read for ChunkReader<'a> {
    fn read(&mut self, buf: &mut [u8]) -> io::Result<usize> {
        let c = self.calls;
        self.calls = self.calls.wrapping_add(1);
        if c < 32 && (self.interrupt_mask >> c) & 1 == 1 {
            return Err(io::Error::from(ErrorKind::Interrupted));
        }
        let avail = self.data.len() - self.pos;
        let mut n = buf.len();
        if n > avail { n = avail; }
        if n > self.chunk { n = self.chunk; }
        buf[..n].copy_from_slice(&self.data[self.pos..self.pos + n]);
        self.pos += n;
        Ok(n)
    }
}

/// Writer that accepts at most `chunk` bytes per call and fails (hard) once `fail_at` bytes were accepted.
/// Fixed-capacity buffer (no reallocation paths for CBMC).
pub struct FaultWriter {
    pub buf: [u8; 96],
    pub len: usize,
    pub fail_at: usize,
    pub chunk: usize,
    pub flush_fails: bool,
    pub kind: ErrorKind,
    pub faulted: bool,
}
impl FaultWriter {
    pub fn new() -> Self {
        FaultWriter { buf: [0; 96], len: 0, fail_at: usize::MAX, chunk: usize::MAX, flush_fails: false, kind: ErrorKind::Other, faulted: false }
    }
    pub fn written(&self) -> &[u8] { &self.buf[..self.len] }
}
impl Write for FaultWriter {
    fn write(&mut self, data: &[u8]) -> io::Result<usize> {
        if self.len >= self.fail_at {
            self.faulted = true;
            return Err(io::Error::from(self.kind));
        }
        let mut n = data.len();
        if n > self.chunk { n = self.chunk; }
        if n > self.fail_at - self.len { n = self.fail_at - self.len; }
        if n > 96 - self.len { self.faulted = true; return Err(io::Error::from(ErrorKind::WriteZero)); }
        self.buf[self.len..self.len + n].copy_from_slice(&data[..n]);
        self.len += n;
        Ok(n)
    }
    fn flush(&mut self) -> io::Result<()> {
        if self.flush_fails { self.faulted = true; return Err(io::Error::from(self.kind)); }
        Ok(())
    }
}
