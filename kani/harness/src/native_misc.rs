//! Native-only BOUNDED harness bodies (small-scope enumeration on the real code) for clauses that neither
//! verifier reaches: CBMC diverges as soon as an `io::Error` is created or a `String`/schema is built, and the
//! functions concerned use constructs outside Verus' subset (`&mut W` held in a struct, closures, `dyn`).
//! Nothing here is counted as proved.
use crate::family::{same, Fam};
use crate::src::Src;
use savefile::prelude::*;
use std::io::{self, ErrorKind, Read, Write};

/// Writer with a growable buffer: fails hard once `fail_at` bytes were accepted, accepts at most `chunk` bytes per
/// call, returns Interrupted on every call whose number has its bit set in `interrupt_mask`, can fail in flush.
pub struct NWriter {
    pub buf: Vec<u8>,
    pub fail_at: usize,
    pub chunk: usize,
    pub flush_fails: bool,
    pub interrupt_mask: u64,
    pub calls: u32,
    pub kind: ErrorKind,
}
impl NWriter {
    pub fn new() -> Self {
        NWriter { buf: Vec::new(), fail_at: usize::MAX, chunk: usize::MAX, flush_fails: false, interrupt_mask: 0, calls: 0, kind: ErrorKind::Other }
    }
}
impl Write for NWriter {
    fn write(&mut self, data: &[u8]) -> io::Result<usize> {
        let c = self.calls;
        self.calls = self.calls.wrapping_add(1);
        if c < 64 && (self.interrupt_mask >> c) & 1 == 1 {
            return Err(io::Error::from(ErrorKind::Interrupted));
        }
        if self.buf.len() >= self.fail_at {
            return Err(io::Error::new(self.kind, "injected write failure"));
        }
        let mut n = data.len();
        if n > self.chunk { n = self.chunk; }
        if n > self.fail_at - self.buf.len() { n = self.fail_at - self.buf.len(); }
        self.buf.extend_from_slice(&data[..n]);
        Ok(n)
    }
    fn flush(&mut self) -> io::Result<()> {
        if self.flush_fails { return Err(io::Error::new(self.kind, "injected flush failure")); }
        Ok(())
    }
}

/// Reader over a slice: hard failure once `fail_at` bytes were delivered, `chunk` bytes per call, Interrupted by mask.
pub struct NReader<'a> {
    pub data: &'a [u8],
    pub pos: usize,
    pub fail_at: usize,
    pub chunk: usize,
    pub interrupt_mask: u64,
    pub calls: u32,
}
impl<'a> NReader<'a> {
    pub fn new(data: &'a [u8]) -> Self { NReader { data, pos: 0, fail_at: usize::MAX, chunk: usize::MAX, interrupt_mask: 0, calls: 0 } }
}
impl<'a> Read for NReader<'a> {
    fn read(&mut self, buf: &mut [u8]) -> io::Result<usize> {
        let c = self.calls;
        self.calls = self.calls.wrapping_add(1);
        if c < 64 && (self.interrupt_mask >> c) & 1 == 1 {
            return Err(io::Error::from(ErrorKind::Interrupted));
        }
        if self.pos >= self.fail_at && !buf.is_empty() {
            return Err(io::Error::new(ErrorKind::Other, "injected read failure"));
        }
        let mut n = buf.len().min(self.data.len() - self.pos).min(self.chunk);
        if n > self.fail_at - self.pos { n = self.fail_at - self.pos; }
        buf[..n].copy_from_slice(&self.data[self.pos..self.pos + n]);
        self.pos += n;
        Ok(n)
    }
}

const KINDS: [ErrorKind; 4] = [ErrorKind::Other, ErrorKind::BrokenPipe, ErrorKind::WriteZero, ErrorKind::PermissionDenied];
const MASKS: [u64; 4] = [0, 1, 0b1010_1010, 0x5555_5555_5555_5555];

fn save_any<T: Serialize + WithSchema, W: Write>(w: &mut W, version: u32, v: &T, with_schema: bool) -> Result<(), SavefileError> {
    if with_schema { savefile::save(w, version, v) } else { savefile::save_noschema(w, version, v) }
}
fn load_any<T: Deserialize + WithSchema, R: Read>(r: &mut R, version: u32, with_schema: bool) -> Result<T, SavefileError> {
    if with_schema { savefile::load(r, version) } else { savefile::load_noschema(r, version) }
}

/// C08 for one value: every writer fault (hard failure at every offset, flush failure) surfaces as Err and leaves a
/// prefix of the fault-free output; short writes and Interrupted do not change the bytes; every reader fault surfaces
/// as Err; chunking and Interrupted do not change the loaded value. No panic (a panic fails the enumeration).
pub fn fault_value<T: Serialize + Deserialize + WithSchema, S: Src>(s: &mut S, v: &T, version: u32, eq: &dyn Fn(&T, &T) -> bool) {
    let with_schema = s.bool();
    let mut good: Vec<u8> = Vec::new();
    assert!(save_any(&mut good, version, v, with_schema).is_ok(), "fault-free save succeeds");
    match s.below(5) {
        0 => {
            // hard write failure at every offset (offset == len: never reached)
            let at = s.below(good.len() + 1);
            let mut w = NWriter::new();
            w.fail_at = at;
            w.kind = KINDS[s.below(KINDS.len())];
            let r = save_any(&mut w, version, v, with_schema);
            assert!(r.is_err() == (at < good.len()), "C08: save returns Err iff the writer failed");
            assert!(w.buf.len() <= good.len() && w.buf[..] == good[..w.buf.len()], "C08: accepted bytes are a prefix of the fault-free output");
        }
        1 => {
            let mut w = NWriter::new();
            w.flush_fails = true;
            w.kind = KINDS[s.below(KINDS.len())];
            let r = save_any(&mut w, version, v, with_schema);
            assert!(r.is_err(), "C08: a failing flush of the underlying writer surfaces as Err from save");
            assert!(w.buf.len() <= good.len() && w.buf[..] == good[..w.buf.len()], "C08: accepted bytes are a prefix of the fault-free output");
        }
        2 => {
            let mut w = NWriter::new();
            w.chunk = 1 + s.below(3);
            w.interrupt_mask = MASKS[s.below(MASKS.len())];
            let r = save_any(&mut w, version, v, with_schema);
            assert!(r.is_ok(), "C08: short writes and interrupted calls are not failures");
            assert!(w.buf == good, "C08: bytes saved do not depend on how the writer accepts them");
        }
        3 => {
            let at = s.below(good.len());
            let mut rd = NReader::new(&good);
            rd.fail_at = at;
            rd.chunk = 1 + s.below(3);
            let r = load_any::<T, _>(&mut rd, version, with_schema);
            assert!(r.is_err(), "C08: a reader failure before the end of the data surfaces as Err from load");
        }
        _ => {
            let mut rd = NReader::new(&good);
            rd.chunk = 1 + s.below(4);
            rd.interrupt_mask = MASKS[s.below(MASKS.len())];
            match load_any::<T, _>(&mut rd, version, with_schema) {
                Ok(b) => { assert!(eq(&b, v), "C08: the loaded value does not depend on chunking"); assert!(rd.pos == good.len(), "C01: exact consumption"); }
                Err(_) => assert!(false, "C08: chunked / interrupted reads of intact data must load"),
            }
        }
    }
}

pub fn fault_family<T: Fam, S: Src>(s: &mut S) {
    let v = T::sym(s);
    fault_value(s, &v, T::VERSION, &|a: &T, b: &T| same(a, b, T::VERSION));
}

fn lib_string<S: Src>(s: &mut S) -> String {
    const LENS: [usize; 5] = [0, 1, 2, 7, 40];
    let n = LENS[s.below(LENS.len())];
    let c = if s.bool() { 'a' } else { 'é' };
    std::iter::repeat(c).take(n).collect()
}

/// C08 on library containers (String, Vec, Option, tuple, map, boxed slice).
pub fn fault_library<S: Src>(s: &mut S) {
    match s.below(6) {
        0 => { let v = lib_string(s); fault_value(s, &v, 0, &|a: &String, b: &String| a == b) }
        1 => { let n = s.below(4); let v: Vec<u32> = (0..n as u32).map(|i| i.wrapping_mul(0x0101_0101)).collect(); fault_value(s, &v, 0, &|a: &Vec<u32>, b: &Vec<u32>| a == b) }
        2 => { let v: Option<(u8, String)> = if s.bool() { Some((s.u8(), lib_string(s))) } else { None }; fault_value(s, &v, 0, &|a: &Option<(u8, String)>, b: &Option<(u8, String)>| a == b) }
        3 => { let n = s.below(3); let v: std::collections::BTreeMap<u16, String> = (0..n as u16).map(|i| (i, "x".repeat(i as usize))).collect(); fault_value(s, &v, 0, &|a: &std::collections::BTreeMap<u16, String>, b: &std::collections::BTreeMap<u16, String>| a == b) }
        4 => { let n = s.below(3); let v: Vec<String> = (0..n).map(|i| "ab".repeat(i)).collect(); fault_value(s, &v, 0, &|a: &Vec<String>, b: &Vec<String>| a == b) }
        _ => { let n = s.below(4); let v: Box<[u16]> = (0..n as u16).collect::<Vec<u16>>().into_boxed_slice(); fault_value(s, &v, 0, &|a: &Box<[u16]>, b: &Box<[u16]>| a == b) }
    }
}

/// C07 for one value: every strict prefix of the saved file fails to load (with and without schema); no panic.
/// `cuts`: None = every cut point; Some(list) = the listed cut points (for long files).
pub fn trunc_value<T: Serialize + Deserialize + WithSchema, S: Src>(s: &mut S, v: &T, version: u32, eq: &dyn Fn(&T, &T) -> bool) {
    let with_schema = s.bool();
    let mut good: Vec<u8> = Vec::new();
    assert!(save_any(&mut good, version, v, with_schema).is_ok());
    let n = good.len();
    // candidate cut points: everything for short files, else a spread that includes the neighbourhood of every
    // power-of-two boundary and of both ends
    let k = if n <= 96 { s.below(n) } else {
        let mut c: Vec<usize> = vec![0, 1, 8, 15, 16, 17, 23, 24, 25, 31, 32, n / 2, n - 2, n - 1];
        let mut p = 64usize;
        while p < n + 64 { for d in [p - 1, p, p + 1, p + 24, p + 25] { if d < n { c.push(d); } } p *= 2; }
        let extra = [n.wrapping_sub(4096), n.wrapping_sub(4097), n.wrapping_sub(8192), n.wrapping_sub(100)];
        for e in extra { if e < n { c.push(e); } }
        c[s.below(c.len())]
    };
    let mut rd = NReader::new(&good[..k]);
    rd.chunk = if s.bool() { usize::MAX } else { 3 };
    match load_any::<T, _>(&mut rd, version, with_schema) {
        Err(_) => {}
        Ok(b) => assert!(false, "C07: a strict prefix of a saved file must not load (plain and schema-less containers have no trailing container bytes)"),
    }
    let _ = eq;
}

pub fn trunc_library<S: Src>(s: &mut S) {
    const LENS: [usize; 9] = [0, 1, 2, 100, 4095, 4096, 4097, 9000, 70000];
    match s.below(12) {
        0 => { let n = LENS[s.below(LENS.len())]; let v: String = std::iter::repeat('q').take(n).collect(); trunc_value(s, &v, 0, &|a: &String, b: &String| a == b) }
        1 => { let n = LENS[s.below(LENS.len())]; let v: Vec<u8> = (0..n).map(|i| i as u8).collect(); trunc_value(s, &v, 0, &|a: &Vec<u8>, b: &Vec<u8>| a == b) }
        2 => { let n = LENS[s.below(7)]; let v: Vec<u32> = (0..n as u32).collect(); trunc_value(s, &v, 0, &|a: &Vec<u32>, b: &Vec<u32>| a == b) }
        3 => { let n = LENS[s.below(LENS.len())]; let v: (String, u8, Vec<String>) = ("z".repeat(n), 7, vec!["k".repeat(n / 2), String::new()]); trunc_value(s, &v, 0, &|a: &(String, u8, Vec<String>), b: &(String, u8, Vec<String>)| a == b) }
        5 => { let n = [1usize, 3, 40][s.below(3)]; let v: std::collections::BTreeSet<u32> = (0..n as u32).map(|i| i * 7).collect(); trunc_value(s, &v, 0, &|a: &std::collections::BTreeSet<u32>, b: &std::collections::BTreeSet<u32>| a == b) }
        6 => { let n = [1usize, 3, 40][s.below(3)]; let v: std::collections::HashSet<u16> = (0..n as u16).collect(); trunc_value(s, &v, 0, &|a: &std::collections::HashSet<u16>, b: &std::collections::HashSet<u16>| a == b) }
        7 => { let n = [1usize, 3, 40][s.below(3)]; let v: std::collections::VecDeque<u16> = (0..n as u16).collect(); trunc_value(s, &v, 0, &|a: &std::collections::VecDeque<u16>, b: &std::collections::VecDeque<u16>| a == b) }
        8 => { let n = [1usize, 3, 40][s.below(3)]; let v: std::collections::BinaryHeap<u16> = (0..n as u16).collect(); trunc_value(s, &v, 0, &|a: &std::collections::BinaryHeap<u16>, b: &std::collections::BinaryHeap<u16>| a.len() == b.len()) }
        9 => { let n = [1usize, 3, 40][s.below(3)]; let v: std::collections::HashMap<u16, u8> = (0..n as u16).map(|i| (i, i as u8)).collect(); trunc_value(s, &v, 0, &|a: &std::collections::HashMap<u16, u8>, b: &std::collections::HashMap<u16, u8>| a == b) }
        10 => { let n = [1usize, 3][s.below(2)]; let v: (u8, Option<Vec<u16>>, Box<[u32]>) = (1, Some(vec![7; n]), vec![9u32; n].into_boxed_slice()); trunc_value(s, &v, 0, &|a: &(u8, Option<Vec<u16>>, Box<[u32]>), b: &(u8, Option<Vec<u16>>, Box<[u32]>)| a == b) }
        _ => { let n = LENS[s.below(5)]; let v: std::collections::BTreeMap<String, Option<String>> = (0..3usize).map(|i| ("m".repeat(n + i), if i == 1 { None } else { Some("v".repeat(n)) })).collect(); trunc_value(s, &v, 0, &|a: &std::collections::BTreeMap<String, Option<String>>, b: &std::collections::BTreeMap<String, Option<String>>| a == b) }
    }
}

// ---------------------------------------------------------------------------------------------------------------
// C17: children are indexed consecutively from zero and introspect_len() equals the number that can be fetched.

fn intro_consistent(x: &dyn Introspect, depth: u32, what: &str) {
    let n = x.introspect_len();
    assert!(n < 1 << 20, "C17: small test values have a small number of children [{}]", what);
    let mut i = 0;
    while i < n {
        match x.introspect_child(i) {
            Some(c) => { let _ = c.key(); if depth > 0 { intro_consistent(c.val(), depth - 1, what); } }
            None => assert!(false, "C17: introspect_len() == {} but child {} cannot be fetched [{}]", n, i, what),
        }
        i += 1;
    }
    for j in [n, n + 1, n + 2, n * 2, n * 2 + 1, usize::MAX / 2, usize::MAX - 1, usize::MAX] {
        if j >= n {
            assert!(x.introspect_child(j).is_none(), "C17: child {} exists beyond introspect_len() == {} [{}]", j, n, what);
        }
    }
    let _ = x.introspect_value();
}

fn poisoned_std_mutex() -> std::sync::Mutex<u32> {
    let m = std::sync::Arc::new(std::sync::Mutex::new(5u32));
    let m2 = m.clone();
    let _ = std::thread::spawn(move || { let _g = m2.lock().unwrap(); std::panic::resume_unwind(Box::new(0u8)); }).join();
    match std::sync::Arc::try_unwrap(m) { Ok(m) => m, Err(_) => std::sync::Mutex::new(0) }
}

pub fn intro_library<S: Src>(s: &mut S) {
    use std::collections::*;
    let n = s.below(4);
    let k = s.below(32);
    let d = 3;
    match k {
        0 => intro_consistent(&s.u8(), d, "u8"),
        1 => intro_consistent(&lib_string(s), d, "String"),
        2 => intro_consistent(&(0..n as u32).collect::<Vec<u32>>(), d, "Vec<u32>"),
        3 => intro_consistent(&(0..n as u32).map(|i| (i, i as u8)).collect::<HashMap<u32, u8>>(), d, "HashMap<u32,u8>"),
        4 => intro_consistent(&(0..n as u32).map(|i| (i, vec![i as u8; i as usize])).collect::<BTreeMap<u32, Vec<u8>>>(), d, "BTreeMap<u32,Vec<u8>>"),
        5 => intro_consistent(&(0..n as u32).collect::<HashSet<u32>>(), d, "HashSet<u32>"),
        6 => intro_consistent(&(0..n as u32).collect::<BTreeSet<u32>>(), d, "BTreeSet<u32>"),
        7 => intro_consistent(&(if s.bool() { Some(vec![1u8; n]) } else { None }), d, "Option<Vec<u8>>"),
        8 => intro_consistent(&(if s.bool() { Ok::<u8, String>(1) } else { Err::<u8, String>("e".into()) }), d, "Result<u8,String>"),
        9 => intro_consistent(&Box::new((1u8, vec![2u16; n])), d, "Box<(u8,Vec<u16>)>"),
        10 => intro_consistent(&std::rc::Rc::new(vec![1u8; n]), d, "Rc<Vec<u8>>"),
        11 => intro_consistent(&std::sync::Arc::new(vec![1u8; n]), d, "Arc<Vec<u8>>"),
        12 => intro_consistent(&std::cell::RefCell::new(vec![1u8; n]), d, "RefCell<Vec<u8>>"),
        // (a RefCell that is mutably borrowed / a Mutex locked by the calling thread are excluded: holding the unique
        //  borrow while introspecting is a caller error in Rust terms, not a value the property quantifies over)
        13 => { let c = std::cell::RefCell::new(vec![1u8; n]); let _g = c.borrow(); intro_consistent(&c, d, "RefCell<Vec<u8>> (shared borrow outstanding)") }
        14 => intro_consistent(&std::sync::Mutex::new(vec![1u8; n]), d, "std::sync::Mutex<Vec<u8>>"),
        15 => intro_consistent(&poisoned_std_mutex(), d, "std::sync::Mutex<u32> (poisoned)"),
        16 => intro_consistent(&std::sync::Mutex::new(Some(3u8)), d, "std::sync::Mutex<Option<u8>>"),
        17 => {
            // also with a physically wrapped ring buffer (push_back to capacity, pop_front, push_back again)
            let mut dq: VecDeque<u32> = VecDeque::with_capacity(4);
            let cap = dq.capacity();
            for i in 0..cap as u32 { dq.push_back(i); }
            for _ in 0..(n + 1).min(cap) { dq.pop_front(); }
            for i in 0..(n + 1).min(cap) as u32 { dq.push_back(100 + i); }
            intro_consistent(&dq, d, "VecDeque<u32> (wrapped ring buffer)");
            let mut front: VecDeque<u32> = (0..n as u32).collect();
            front.push_front(9);
            intro_consistent(&front, d, "VecDeque<u32> (after push_front)");
            intro_consistent(&(0..n as u32).collect::<VecDeque<u32>>(), d, "VecDeque<u32>")
        }
        18 => intro_consistent(&(0..n as u32).collect::<BinaryHeap<u32>>(), d, "BinaryHeap<u32>"),
        19 => intro_consistent(&[s.u8(), 1, 2], d, "[u8;3]"),
        20 => intro_consistent(&(1u8, 2u16, "x".to_string(), Some(4u32)), d, "(u8,u16,String,Option<u32>)"),
        21 => intro_consistent(&(0..n as u16).collect::<Vec<u16>>().into_boxed_slice(), d, "Box<[u16]>"),
        22 => { let a: std::sync::Arc<[u16]> = (0..n as u16).collect::<Vec<u16>>().into(); intro_consistent(&a, d, "Arc<[u16]>") }
        23 => { let a: std::sync::Arc<str> = "hey".into(); intro_consistent(&a, d, "Arc<str>") }
        24 => { let mut a = arrayvec::ArrayVec::<u8, 4>::new(); for i in 0..n { a.push(i as u8); } intro_consistent(&a, d, "ArrayVec<u8,4>") }
        25 => { let mut a = smallvec::SmallVec::<[u8; 2]>::new(); for i in 0..n { a.push(i as u8); } intro_consistent(&a, d, "SmallVec<[u8;2]>") }
        26 => intro_consistent(&(0..n as u32).map(|i| (i, i as u8)).collect::<indexmap::IndexMap<u32, u8>>(), d, "IndexMap<u32,u8>"),
        27 => intro_consistent(&(0..n as u32).collect::<indexmap::IndexSet<u32>>(), d, "IndexSet<u32>"),
        28 => intro_consistent(&(1u32..(1 + n as u32)), d, "Range<u32>"),
        29 => intro_consistent(&savefile::get_schema::<(u8, Vec<Option<String>>)>(0), 6, "Schema"),
        30 => { let mut b = bit_vec::BitVec::new(); for i in 0..n * 5 { b.push(i % 2 == 0); } intro_consistent(&b, d, "BitVec") }
        _ => intro_consistent(&std::borrow::Cow::Borrowed("cow"), d, "Cow<str>"),
    }
}

pub fn intro_family<T: Fam + Introspect, S: Src>(s: &mut S) {
    let v = T::sym(s);
    intro_consistent(&v, 4, T::NAME);
}

/// C17, navigation: any sequence of <= 3 introspector commands never panics, and every returned result's flat index
/// yields an element exactly for the indices below its total length.
pub fn intro_navigate<S: Src, const OBJ: usize>(s: &mut S) {
    use savefile::{IntrospectedElementKey, Introspector, IntrospectorNavCommand};
    let obj: Box<dyn Introspect> = match OBJ {
        3 => Box::new(<crate::family_gen::SNest as Fam>::sym(&mut crate::src::EnumSrc::new())),
        4 => Box::new(<crate::family_gen::EData as Fam>::sym(&mut crate::src::EnumSrc::new())),
        5 => Box::new((0..2u32).map(|i| (i, (i as u8, "v".to_string()))).collect::<std::collections::HashMap<u32, (u8, String)>>()),
        0 => Box::new((1u8, vec![(2u16, "s".to_string()); 2], Some(vec![3u32; 3]))),
        1 => Box::new((0..3u32).map(|i| (i, vec![i as u8; i as usize])).collect::<std::collections::BTreeMap<u32, Vec<u8>>>()),
        _ => Box::new(vec![Some(Box::new((1u8, 2u8))), None]),
    };
    let mut intro = if s.bool() { Introspector::new() } else { Introspector::new_with(1 + s.below(2)) };
    let steps = 1 + s.below(3);
    let mut i = 0;
    while i < steps {
        const IDX: [usize; 5] = [0, 1, 2, 5, usize::MAX];
        let cmd = match s.below(4) {
            0 => IntrospectorNavCommand::Nothing,
            1 => IntrospectorNavCommand::Up,
            2 => IntrospectorNavCommand::SelectNth { select_depth: IDX[s.below(IDX.len())], select_index: IDX[s.below(IDX.len())] },
            _ => IntrospectorNavCommand::ExpandElement(IntrospectedElementKey {
                depth: IDX[s.below(IDX.len())],
                key: ["0", "1", "2", "nope"][s.below(4)].to_string(),
                key_disambiguator: IDX[s.below(3)],
            }),
        };
        if let Ok(res) = intro.do_introspect(&*obj, cmd) {
            let total = res.total_len();
            assert!(total < 1 << 20);
            let mut j = 0;
            while j < total { assert!(res.total_index(j).is_some(), "C17: flat index {} below total length {} yields an element", j, total); j += 1; }
            for j in [total, total + 1, usize::MAX] { assert!(res.total_index(j).is_none(), "C17: flat index {} at/after total length {} yields nothing", j, total); }
        }
        i += 1;
    }
}

// ---------------------------------------------------------------------------------------------------------------
// C06 on variable-size library types: single-byte corruptions, truncations and extensions of valid encodings.

/// Records where 8-byte fields (lengths, usize/u64 values) start, so that corruptions never fabricate an absurd
/// declared length (genuine out-of-memory on absurd lengths is excluded by the property itself).
struct TraceWriter { buf: Vec<u8>, eights: Vec<usize> }
impl Write for TraceWriter {
    fn write(&mut self, data: &[u8]) -> io::Result<usize> {
        if data.len() == 8 { self.eights.push(self.buf.len()); }
        self.buf.extend_from_slice(data);
        Ok(data.len())
    }
    fn flush(&mut self) -> io::Result<()> { Ok(()) }
}

fn corrupt_one<T: Serialize + Deserialize, S: Src>(s: &mut S, v: &T, what: &str) { corrupt_one_at(s, v, 0, what) }
fn corrupt_one_at<T: Serialize + Deserialize, S: Src>(s: &mut S, v: &T, ver: u32, what: &str) {
    let mut tw = TraceWriter { buf: Vec::new(), eights: Vec::new() };
    assert!(savefile::Serializer::bare_serialize(&mut tw, ver, v).is_ok());
    let good = tw.buf.clone();
    let mut input = good.clone();
    match s.below(3) {
        0 => {
            if good.is_empty() { return; }
            let p = s.below(good.len());
            let in_field = tw.eights.iter().find(|&&o| p >= o && p < o + 8).copied();
            let b = match in_field {
                Some(o) => { if p != o { return; } [0u8, 1, 2, 3, 5][s.below(5)] }   // low byte of a length-like field only
                None => [0u8, 1, 2, 3, 128, 255][s.below(6)],
            };
            input[p] = b;
        }
        1 => { let k = s.below(good.len() + 1); input.truncate(k); }
        _ => { let extra = [0u8, 1, 255][s.below(3)]; input.push(extra); if s.bool() { input.push(extra); } }
    }
    // A corruption can shift the framing so that data bytes are read as a length; an absurd declared length may end in
    // an allocation failure, which ABORTS the process (handle_alloc_error) and which the property excludes ("apart
    // from genuine out-of-memory on absurd declared lengths"). The load therefore runs in a forked child: exit 0 = all
    // assertions held, exit 101 = an assertion failed or the library panicked (message passed back through a file),
    // SIGABRT = allocation failure (tolerated), anything else fails the case.
    let msg_path = std::env::temp_dir().join(format!("verif_native_msg_{}", std::process::id()));
    let pid = unsafe { libc::fork() };
    assert!(pid >= 0, "fork failed");
    if pid == 0 {
        // no core dump for the tolerated abort
        unsafe { let lim = libc::rlimit { rlim_cur: 0, rlim_max: 0 }; libc::setrlimit(libc::RLIMIT_CORE, &lim); }
        let r = std::panic::catch_unwind(std::panic::AssertUnwindSafe(|| {
            let mut rd: &[u8] = &input[..];
            let r = savefile::Deserializer::bare_deserialize::<T>(&mut rd, ver);
            if let Ok(x) = r {
                let consumed = input.len() - rd.len();
                let mut re: Vec<u8> = Vec::new();
                assert!(savefile::Serializer::bare_serialize(&mut re, ver, &x).is_ok(), "C06: a loaded value can be written again [{}]", what);
                assert!(re.len() <= consumed, "C06: the loaded value claims more content ({} bytes when written) than the {} input bytes consumed could have encoded [{}] input {:?}", re.len(), consumed, what, input);
            }
        }));
        let code = match r {
            Ok(()) => 0,
            Err(e) => {
                let msg = e.downcast_ref::<String>().cloned().or(e.downcast_ref::<&str>().map(|x| x.to_string())).unwrap_or_default();
                if msg.contains("Failed to allocate") || msg.contains("capacity overflow") { 0 } else {
                    let _ = std::fs::write(&msg_path, format!("C06: loading corrupted bytes failed: {} [{}] input {:?}", msg, what, input));
                    101
                }
            }
        };
        unsafe { libc::_exit(code) };
    }
    let mut status: libc::c_int = 0;
    let w = unsafe { libc::waitpid(pid, &mut status, 0) };
    assert!(w == pid, "waitpid failed");
    if libc::WIFEXITED(status) {
        if libc::WEXITSTATUS(status) != 0 {
            let msg = std::fs::read_to_string(&msg_path).unwrap_or_default();
            let _ = std::fs::remove_file(&msg_path);
            panic!("{}", msg);
        }
    } else if libc::WIFSIGNALED(status) && libc::WTERMSIG(status) == libc::SIGABRT {
        // allocation failure on an absurd declared length (tolerated by the property)
    } else {
        panic!("C06: loading corrupted bytes killed the process (status {}) [{}] input {:?}", status, what, input);
    }
}

/// C06 (bounded): corrupted encodings of library containers never panic and never yield over-long results.
pub fn malformed_library<S: Src>(s: &mut S) {
    use std::collections::*;
    match s.below(35) {
        0 => corrupt_one(s, &"ab".to_string(), "String"),
        1 => corrupt_one(s, &"é".to_string(), "String (2-byte char)"),
        2 => corrupt_one(s, &vec![1u16, 2], "Vec<u16>"),
        3 => corrupt_one(s, &vec!["a".to_string(), String::new()], "Vec<String>"),
        4 => corrupt_one(s, &[(1u8, 2u8)].into_iter().collect::<HashMap<u8, u8>>(), "HashMap<u8,u8>"),
        5 => corrupt_one(s, &[(1u8, "x".to_string()), (2u8, String::new())].into_iter().collect::<BTreeMap<u8, String>>(), "BTreeMap<u8,String>"),
        6 => corrupt_one(s, &Some("a".to_string()), "Option<String>"),
        7 => corrupt_one(s, &[1u8, 2].into_iter().collect::<VecDeque<u8>>(), "VecDeque<u8>"),
        8 => corrupt_one(s, &[1u8, 2].into_iter().collect::<BinaryHeap<u8>>(), "BinaryHeap<u8>"),
        9 => corrupt_one(s, &[1u8, 2].into_iter().collect::<BTreeSet<u8>>(), "BTreeSet<u8>"),
        10 => corrupt_one(s, &[1u8, 2].into_iter().collect::<HashSet<u8>>(), "HashSet<u8>"),
        11 => corrupt_one(s, &vec![1u8, 2, 3].into_boxed_slice(), "Box<[u8]>"),
        12 => { let a: std::sync::Arc<[u16]> = vec![1u16, 2].into(); corrupt_one(s, &a, "Arc<[u16]>") }
        13 => { let a: std::sync::Arc<str> = "hi".into(); corrupt_one(s, &a, "Arc<str>") }
        14 => { let mut a = arrayvec::ArrayVec::<u8, 4>::new(); a.push(1); a.push(2); corrupt_one(s, &a, "ArrayVec<u8,4>") }
        15 => { let mut a = smallvec::SmallVec::<[u8; 2]>::new(); a.push(1); a.push(2); a.push(3); corrupt_one(s, &a, "SmallVec<[u8;2]>") }
        16 => { let mut b = bit_vec::BitVec::new(); for i in 0..11 { b.push(i % 3 == 0); } corrupt_one(s, &b, "BitVec") }
        17 => corrupt_one(s, &(1u8, "s".to_string(), vec![2u8]), "(u8,String,Vec<u8>)"),
        18 => corrupt_one(s, &(('x', true), Some(false), Ok::<u8, u8>(3)), "((char,bool),Option<bool>,Result<u8,u8>)"),
        19 => corrupt_one(s, &[(1u8, 2u8)].into_iter().collect::<indexmap::IndexMap<u8, u8>>(), "IndexMap<u8,u8>"),
        20 => corrupt_one(s, &[1u8, 2].into_iter().collect::<indexmap::IndexSet<u8>>(), "IndexSet<u8>"),
        21 => corrupt_one(s, &std::net::IpAddr::V4(std::net::Ipv4Addr::new(1, 2, 3, 4)), "IpAddr"),
        22 => corrupt_one(s, &std::time::Duration::new(5, 7), "Duration"),
        23 => corrupt_one(s, &vec![vec![1u8], vec![]], "Vec<Vec<u8>>"),
        24 => {
            // a stored schema section (library format 2) with a trait-object node: what `load` parses before the payload
            use savefile::{AbiMethod, AbiMethodArgument, AbiMethodInfo, AbiTraitDefinition, ReceiverType, Schema, SchemaPrimitive};
            let def = AbiTraitDefinition {
                name: "T".to_string(),
                methods: vec![AbiMethod { name: "m".to_string(), info: AbiMethodInfo {
                    return_value: Schema::Primitive(SchemaPrimitive::schema_u8), receiver: ReceiverType::Shared,
                    arguments: vec![AbiMethodArgument { schema: Schema::Primitive(SchemaPrimitive::schema_u32) }], async_trait_heuristic: false } }],
                sync: true, send: true,
            };
            corrupt_one_at(s, &Schema::Trait(false, def), 2, "Schema::Trait (schema section, format 2)")
        }
        26 => corrupt_one(s, &arrayvec::ArrayString::<4>::from("héj").unwrap(), "ArrayString<4>"),
        27 => corrupt_one(s, &(3u32..9u32), "Range<u32>"),
        28 => corrupt_one(s, &std::path::PathBuf::from("a/b"), "PathBuf"),
        29 => corrupt_one(s, &std::borrow::Cow::<str>::Owned("cow".into()), "Cow<str>"),
        30 => corrupt_one(s, &std::net::SocketAddr::V6(std::net::SocketAddrV6::new(std::net::Ipv6Addr::LOCALHOST, 443, 1, 2)), "SocketAddr V6"),
        31 => corrupt_one(s, &(std::time::SystemTime::UNIX_EPOCH + std::time::Duration::new(1, 5)), "SystemTime"),
        32 => corrupt_one(s, &vec![('a', true), ('€', false)], "Vec<(char,bool)>"),
        33 => corrupt_one(s, &[(1u8, vec![2u16]), (3u8, vec![])].into_iter().collect::<BTreeMap<u8, Vec<u16>>>(), "BTreeMap<u8,Vec<u16>>"),
        _ => {
            let sch = savefile::get_schema::<(u8, Vec<Option<String>>, [u16; 2])>(0);
            corrupt_one_at(s, &sch, 2, "Schema of (u8,Vec<Option<String>>,[u16;2]) (schema section, format 2)")
        }
    }
}

// ---------------------------------------------------------------------------------------------------------------
// C04: the bulk (memory-copy) paths of every container kind are unobservable.

/// For element type T (packed or not): Vec<T>, &[T] (via Box<[T]> / Arc<[T]>), [T;2] and ArrayVec<T,4> produce
/// exactly length-prefix ++ element-wise reference encodings (arrays: no prefix), the same bytes as the always
/// field-by-field VecDeque<T>, and load back element-wise equal, consuming everything.
pub fn bulk_containers<T: Fam, S: Src>(s: &mut S) {
    use crate::refenc::RefEnc;
    use savefile::{Deserializer, Serializer};
    let a = T::sym(s);
    let b = T::sym(s);
    let ver = T::VERSION;
    let mut elems: Vec<u8> = Vec::new();
    a.renc(ver, &mut elems);
    b.renc(ver, &mut elems);
    let mut with_len: Vec<u8> = 2u64.to_le_bytes().to_vec();
    with_len.extend_from_slice(&elems);
    fn ser<X: Serialize>(x: &X, ver: u32) -> Vec<u8> { let mut o = Vec::new(); assert!(Serializer::bare_serialize(&mut o, ver, x).is_ok()); o }
    fn de<X: Deserialize>(bytes: &[u8], ver: u32) -> X {
        let mut rd: &[u8] = bytes;
        match Deserializer::bare_deserialize::<X>(&mut rd, ver) { Ok(x) => { assert!(rd.is_empty(), "C01: exact consumption"); x } Err(e) => panic!("C04: loading saved bytes must succeed: {:?}", e) }
    }
    let eq2 = |x: &T, y: &T| same(x, &a, ver) && same(y, &b, ver);
    let v = vec![a.clone(), b.clone()];
    assert!(ser(&v, ver) == with_len, "C04: Vec<{}> bytes == length ++ element-wise encodings", T::NAME);
    let back: Vec<T> = de(&with_len, ver);
    assert!(back.len() == 2 && eq2(&back[0], &back[1]), "C04: Vec<{}> loads element-wise equal", T::NAME);
    let dq: std::collections::VecDeque<T> = v.iter().cloned().collect();
    assert!(ser(&dq, ver) == with_len, "C04: the field-by-field VecDeque<{}> gives the same bytes", T::NAME);
    let bx: Box<[T]> = v.clone().into_boxed_slice();
    assert!(ser(&bx, ver) == with_len, "C04: Box<[{}]> bytes", T::NAME);
    let back: Box<[T]> = de(&with_len, ver);
    assert!(back.len() == 2 && eq2(&back[0], &back[1]), "C04: Box<[{}]> loads element-wise equal", T::NAME);
    let arc: std::sync::Arc<[T]> = v.clone().into();
    assert!(ser(&arc, ver) == with_len, "C04: Arc<[{}]> bytes", T::NAME);
    let back: std::sync::Arc<[T]> = de(&with_len, ver);
    assert!(back.len() == 2 && eq2(&back[0], &back[1]), "C04: Arc<[{}]> loads element-wise equal", T::NAME);
    let arr: [T; 2] = [a.clone(), b.clone()];
    assert!(ser(&arr, ver) == elems, "C04: [{};2] bytes == element-wise encodings", T::NAME);
    let back: [T; 2] = de(&elems, ver);
    assert!(eq2(&back[0], &back[1]), "C04: [{};2] loads element-wise equal", T::NAME);
    let mut av = arrayvec::ArrayVec::<T, 4>::new();
    av.push(a.clone()); av.push(b.clone());
    assert!(ser(&av, ver) == with_len, "C04: ArrayVec<{},4> bytes", T::NAME);
    let back: arrayvec::ArrayVec<T, 4> = de(&with_len, ver);
    assert!(back.len() == 2 && eq2(&back[0], &back[1]), "C04: ArrayVec<{},4> loads element-wise equal", T::NAME);
}

// ---------------------------------------------------------------------------------------------------------------
// C12 for more hand-written WithSchema impls (one value each; the walker is crate::schemaread)

pub fn schema_library2<S: Src>(s: &mut S) {
    use crate::schemaread::schema_faithful_value as f;
    use std::collections::*;
    use std::sync::atomic::*;
    let k = s.below(34);
    let b = s.u8();
    match k {
        0 => f(&std::rc::Rc::new(b as u32), 0, "Rc<u32>"),
        1 => f(&std::sync::Arc::new(b as u16), 0, "Arc<u16>"),
        2 => f(&std::borrow::Cow::<str>::Owned("cow".into()), 0, "Cow<str>"),
        3 => f(&[b, 1].into_iter().collect::<BinaryHeap<u8>>(), 0, "BinaryHeap<u8>"),
        4 => f(&[b as u16].into_iter().collect::<HashSet<u16>>(), 0, "HashSet<u16>"),
        5 => f(&'€', 0, "char"),
        6 => f(&AtomicU32::new(b as u32), 0, "AtomicU32"),
        7 => f(&AtomicBool::new(b & 1 == 1), 0, "AtomicBool"),
        8 => f(&(3u32..(4 + b as u32)), 0, "Range<u32>"),
        9 => f(&(std::time::SystemTime::UNIX_EPOCH + std::time::Duration::new(b as u64, 5)), 0, "SystemTime"),
        10 => f(&std::net::IpAddr::V4(std::net::Ipv4Addr::new(b, 2, 3, 4)), 0, "IpAddr V4"),
        11 => f(&std::net::IpAddr::V6(std::net::Ipv6Addr::LOCALHOST), 0, "IpAddr V6"),
        12 => f(&std::path::PathBuf::from("a/b"), 0, "PathBuf"),
        13 => f(&(b,), 0, "(u8,)"),
        14 => f(&std::cell::Cell::new(b), 0, "Cell<u8>"),
        15 => f(&std::cell::RefCell::new(b as u16), 0, "RefCell<u16>"),
        16 => f(&std::sync::Mutex::new(b), 0, "std::sync::Mutex<u8>"),
        17 => { let a: std::sync::Arc<str> = "hi".into(); f(&a, 0, "Arc<str>") }
        18 => { let a: std::sync::Arc<[u8]> = vec![b, 2].into(); f(&a, 0, "Arc<[u8]>") }
        19 => f(&vec![b as u16, 2].into_boxed_slice(), 0, "Box<[u16]>"),
        20 => { let mut a = arrayvec::ArrayVec::<u16, 4>::new(); a.push(b as u16); f(&a, 0, "ArrayVec<u16,4>") }
        21 => f(&arrayvec::ArrayString::<8>::from("hej").unwrap(), 0, "ArrayString<8>"),
        22 => { let mut a = smallvec::SmallVec::<[u16; 2]>::new(); a.push(1); a.push(b as u16); a.push(3); f(&a, 0, "SmallVec<[u16;2]>") }
        23 => f(&[(b, 2u16)].into_iter().collect::<indexmap::IndexMap<u8, u16>>(), 0, "IndexMap<u8,u16>"),
        24 => f(&[b].into_iter().collect::<indexmap::IndexSet<u8>>(), 0, "IndexSet<u8>"),
        25 => f(&Some(Some(b)), 0, "Option<Option<u8>>"),
        26 => f(&[[b, 1], [2, 3]], 0, "[[u8;2];2]"),
        27 => f(&vec![Some("x".to_string()), None], 0, "Vec<Option<String>>"),
        28 => f(&[(b, "v".to_string())].into_iter().collect::<HashMap<u8, String>>(), 0, "HashMap<u8,String>"),
        29 => f(&(b as i128 - 3), 0, "i128"),
        30 => f(&(b as f64), 0, "f64"),
        31 => f(&(b as isize), 0, "isize"),
        32 => f(&savefile::Canary1::default(), 0, "Canary1"),
        _ => f(&std::marker::PhantomData::<u8>, 0, "PhantomData<u8>"),
    }
}
#[cfg(feature = "xnative")]
pub fn schema_library3<S: Src>(s: &mut S) {
    use crate::schemaread::schema_faithful_value as f;
    let b = s.u8();
    match s.below(4) {
        0 => f(&parking_lot::Mutex::new(b), 0, "parking_lot::Mutex<u8>"),
        1 => f(&parking_lot::RwLock::new(b as u16), 0, "parking_lot::RwLock<u16>"),
        2 => {
            // Schema::UtcTimestamp is a leaf kind of its own (documented: i64 nanoseconds since the epoch): 8 bytes on the wire
            let v = chrono::DateTime::<chrono::Utc>::from_timestamp(b as i64, 7).unwrap();
            let mut buf: Vec<u8> = Vec::new();
            assert!(savefile::Serializer::bare_serialize(&mut buf, 0, &v).is_ok());
            assert!(savefile::get_schema::<chrono::DateTime<chrono::Utc>>(0) == savefile::Schema::UtcTimestamp && buf.len() == 8, "C12: chrono::DateTime<Utc>: schema UtcTimestamp describes 8 bytes");
        }
        _ => f(&std::time::Duration::new(b as u64, 9), 0, "Duration"),
    }
}

/// C12 for the bit vector / bit set types (one harness, so that the known finding is keyed to these types)
#[cfg(feature = "xnative")]
pub fn schema_bitvec<S: Src>(s: &mut S) {
    use crate::schemaread::schema_faithful_value as f;
    match s.below(4) {
        0 => { let mut v = bit_vec::BitVec::new(); for i in 0..11 { v.push(i % 3 == 0); } f(&v, 0, "bit_vec 0.6 BitVec") }
        1 => { let mut v = bit_vec08::BitVec::new(); for i in 0..37 { v.push(i % 5 == 0); } f(&v, 0, "bit_vec 0.8 BitVec") }
        2 => { let mut v = bit_set::BitSet::new(); v.insert(1); v.insert(40); f(&v, 0, "bit_set 0.5 BitSet") }
        _ => { let mut v = bit_set08::BitSet::new(); v.insert(0); v.insert(33); f(&v, 0, "bit_set 0.8 BitSet") }
    }
}

// ---------------------------------------------------------------------------------------------------------------
// C03: an enum that reaches exactly 256 variants by appending a versioned variant still reads one-byte discriminants.
pub fn evolve_enum256<S: Src>(s: &mut S) {
    use crate::native_enum256::{E255Old, E256New};
    let (old, want) = match s.below(3) { 0 => (E255Old::V0, E256New::V0), 1 => (E255Old::V1, E256New::V1), _ => (E255Old::V254, E256New::V254) };
    let with_schema = s.bool();
    let mut file: Vec<u8> = Vec::new();
    assert!(save_any(&mut file, 0, &old, with_schema).is_ok());
    match load_any::<E256New, _>(&mut &file[..], 1, with_schema) {
        Ok(v) => assert!(v == want, "C03: variants present in both versions keep their identity"),
        Err(e) => panic!("C03: data saved before the 256th variant was appended must load ({}): {:?}", if with_schema { "with schema" } else { "schema-less" }, e),
    }
    // and the new definition at its own version: 256 variants still use a one-byte discriminant
    let mut f2: Vec<u8> = Vec::new();
    assert!(savefile::Serializer::bare_serialize(&mut f2, 1, &E256New::V255).is_ok());
    assert!(f2 == vec![255u8], "C02/C03: the 256th variant is written as the single byte 255");
}

// ---------------------------------------------------------------------------------------------------------------
// C12 for an enum with more than 256 variants: `Variant::discriminant` in a schema is a u8, so variants with index
// >= 256 cannot be described at all. The two halves are separate harnesses so that this known limitation is keyed
// to the high half only.
pub fn schema_e257<S: Src, const HIGH: bool>(s: &mut S) {
    use crate::family_gen::E257;
    use crate::refenc::ref_bytes;
    if HIGH {
        crate::schemaread::schema_faithful_value(&E257::V256, 0, "E257, variant index >= 256");
        return;
    }
    let v = <E257 as Fam>::sym(s);
    let b = ref_bytes(&v, 0);
    let idx = b[0] as usize | ((b[1] as usize) << 8);
    s.assume(idx < 256);
    crate::schemaread::schema_faithful_value(&v, 0, "E257, variant index < 256");
}
