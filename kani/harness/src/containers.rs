//! Container-level contracts: header gate (C05), truncation (C07), I/O faults and chunking (C08),
//! malformed input (C06). Generic over family types where possible.
use crate::family::{same, Fam};
use crate::iox::{ChunkReader, FaultWriter};
use crate::refenc::{ref_bytes, ref_header, RefEnc};
use crate::src::Src;
use savefile::prelude::*;
use savefile::{Deserializer, SavefileError, Serializer};
use std::io::ErrorKind;

const MAGIC: [u8; 9] = *b"savefile\0";

/// C02 header layout + C01 container round trip: save_noschema writes magic, lib version 2, data version,
/// flag 0, then the payload; load_noschema returns the value and consumes everything.
pub fn file_noschema<T: Fam, S: Src>(s: &mut S) {
    let v = T::sym(s);
    let mut buf: Vec<u8> = Vec::with_capacity(64);
    let r = savefile::save_noschema(&mut buf, T::VERSION, &v);
    assert!(r.is_ok());
    let mut exp = ref_header(2, T::VERSION, false);
    v.renc(T::VERSION, &mut exp);
    assert!(buf == exp, "C02: header (magic, lib version, data version, flag) ++ payload");
    let mut rd: &[u8] = &buf[..];
    match savefile::load_noschema::<T>(&mut rd, T::VERSION) {
        Ok(b) => { assert!(same(&b, &v, T::VERSION), "C01"); assert!(rd.is_empty(), "C01: consumes exactly what save produced"); }
        Err(_) => assert!(false, "C01: load of a saved file must succeed"),
    }
}

/// C05: any single-byte corruption of the magic is rejected with an error and no payload byte is read.
pub fn hdr_magic<S: Src>(s: &mut S) {
    let i = s.below(9);
    let b = s.u8();
    s.assume(b != MAGIC[i]);
    let payload = s.u32();
    let mut file = ref_header(2, 0, false);
    file[i] = b;
    file.extend_from_slice(&payload.to_le_bytes());
    let mut rd: &[u8] = &file[..];
    let r = savefile::load_noschema::<u32>(&mut rd, 0);
    assert!(r.is_err(), "C05: wrong magic is rejected");
    assert!(file.len() - rd.len() <= 16, "C05: rejected before any payload is interpreted");
}

/// C05: library-format version and data version gates; otherwise payload read at the FILE's version.
pub fn hdr_versions<S: Src>(s: &mut S) {
    let libver = s.u16();
    let dataver = s.u32();
    let progver = s.u32();
    let flag = s.u8();
    let payload = s.u32();
    let mut file = b"savefile\0".to_vec();
    file.extend_from_slice(&libver.to_le_bytes());
    file.extend_from_slice(&dataver.to_le_bytes());
    file.push(flag);
    file.extend_from_slice(&payload.to_le_bytes());
    let mut rd: &[u8] = &file[..];
    let r = savefile::load_noschema::<u32>(&mut rd, progver);
    if libver > 2 {
        assert!(r.is_err(), "C05: newer library format version is rejected");
        assert!(file.len() - rd.len() <= 16, "C05: before any payload is interpreted");
    } else if dataver > progver {
        assert!(matches!(r, Err(SavefileError::WrongVersion { .. })), "C05: data version newer than the program's is rejected");
        assert!(file.len() - rd.len() <= 16, "C05: before any payload is interpreted");
    } else if flag == 0 {
        match r { Ok(v) => { assert!(v == payload); assert!(rd.is_empty()); } Err(_) => assert!(false, "C05: valid header must load") }
    } else {
        // compressed payload: this build has no bzip2; must be an error, never a value or a panic
        assert!(r.is_err());
    }
}

/// C07: every strict prefix of a saved (schema-less) file is rejected; never a different value, never a panic.
pub fn truncate_noschema<T: Fam, S: Src>(s: &mut S) {
    let v = T::sym(s);
    let mut buf: Vec<u8> = Vec::with_capacity(64);
    let r = savefile::save_noschema(&mut buf, T::VERSION, &v);
    assert!(r.is_ok());
    let k = s.below(buf.len());
    let mut rd: &[u8] = &buf[..k];
    let r = savefile::load_noschema::<T>(&mut rd, T::VERSION);
    match r {
        Err(_) => {}
        Ok(b) => assert!(false, "C07: a strict prefix of a saved file must not load"),
    }
}

/// C06 for fixed-size targets: arbitrary bytes of the exact encoded size (and any shorter length) never panic;
/// a returned value is a valid value of its type (no invalid bool / char bit patterns, enum tags in range)
/// and it never consumed more than the input held.
pub fn malformed_fixed<T: Fam, S: Src, const N: usize>(s: &mut S) {
    let bytes: [u8; N] = s.bytes::<N>();
    let len = s.usize();
    s.assume(len <= N);
    let mut rd: &[u8] = &bytes[..len];
    let r = Deserializer::bare_deserialize::<T>(&mut rd, T::VERSION);
    if let Ok(v) = r {
        assert!(v.ok(), "C06: a returned value is a valid value of its type");
        let used = len - rd.len();
        assert!(ref_bytes(&v, T::VERSION).len() == used, "C06: consumed exactly the encoding of the returned value");
    }
}

/// C08 (writer, short writes): a writer that accepts CHUNK bytes per call gets exactly the fault-free bytes.
pub fn short_write<T: Fam, S: Src, const CHUNK: usize>(s: &mut S) {
    let v = T::sym(s);
    let mut good: Vec<u8> = Vec::with_capacity(96);
    assert!(savefile::save_noschema(&mut good, T::VERSION, &v).is_ok());
    let mut w = FaultWriter::new();
    w.chunk = CHUNK;
    let r = savefile::save_noschema(&mut w, T::VERSION, &v);
    assert!(r.is_ok(), "C08: short writes are not failures");
    assert!(w.written() == &good[..], "C08: bytes independent of how the writer accepts them");
}

/// C08 (writer, hard failure at byte offset AT, bounded stand-in: one offset per harness instance): save returns
/// Err and what was accepted is a prefix of the fault-free output.
pub fn fail_write<T: Fam, S: Src, const AT: usize>(s: &mut S) {
    let v = T::sym(s);
    let mut good: Vec<u8> = Vec::with_capacity(96);
    assert!(savefile::save_noschema(&mut good, T::VERSION, &v).is_ok());
    let mut w = FaultWriter::new();
    w.fail_at = AT;
    let r = savefile::save_noschema(&mut w, T::VERSION, &v);
    let e = r.is_err();
    core::mem::forget(r);
    assert!(e == (AT < good.len()), "C08: Err iff the writer failed");
    assert!(w.len <= good.len() && w.written() == &good[..w.len], "C08: accepted bytes are a prefix of the fault-free output");
}

/// C08 (reader): the loaded value does not depend on how the reader chunks the data (CHUNK bytes per call).
pub fn chunked_read<T: Fam, S: Src, const CHUNK: usize>(s: &mut S) {
    let v = T::sym(s);
    let mut good: Vec<u8> = Vec::with_capacity(96);
    assert!(savefile::save_noschema(&mut good, T::VERSION, &v).is_ok());
    let mut rd = ChunkReader::new(&good);
    rd.chunk = CHUNK;
    match savefile::load_noschema::<T>(&mut rd, T::VERSION) {
        Ok(b) => { assert!(same(&b, &v, T::VERSION), "C08: result independent of chunking"); assert!(rd.pos == good.len()); }
        Err(e) => { core::mem::forget(e); assert!(false, "C08: chunked reads of intact data must load"); }
    }
}

/// C08 (writer, failing flush): save must return Err when the final flush of the caller's writer fails.
pub fn flush_fail<T: Fam, S: Src>(s: &mut S) {
    let v = T::sym(s);
    let mut w = FaultWriter::new();
    w.flush_fails = true;
    w.kind = std::io::ErrorKind::BrokenPipe;
    let r = savefile::save_noschema(&mut w, T::VERSION, &v);
    let e = r.is_err();
    core::mem::forget(r);
    assert!(e, "C08: a failing flush of the underlying writer surfaces as Err from save");
}
