//! C06: malformed input into library types with unsafe / arithmetic on untrusted values.
use crate::iox::ChunkReader;
use crate::src::Src;
use savefile::prelude::*;
use savefile::{Deserializer, Serializer};

fn byte_of_bool(b: &bool) -> u8 { unsafe { *(b as *const bool as *const u8) } }

/// Vec<bool> (bulk path: bool is Packed): declared length 2, arbitrary element bytes.
pub fn mal_vec_bool<S: Src>(s: &mut S) {
    let e0 = s.u8();
    let e1 = s.u8();
    let mut bytes = 2u64.to_le_bytes().to_vec();
    bytes.push(e0);
    bytes.push(e1);
    let mut rd: &[u8] = &bytes[..];
    if let Ok(v) = Deserializer::bare_deserialize::<Vec<bool>>(&mut rd, 0) {
        assert!(v.len() == 2);
        assert!(byte_of_bool(&v[0]) <= 1 && byte_of_bool(&v[1]) <= 1, "C06: no invalid bool values (UB) from corrupted input");
    }
}
/// Vec<char> (bulk path): arbitrary 4 bytes must not yield an invalid scalar.
pub fn mal_vec_char<S: Src>(s: &mut S) {
    let e = s.u32();
    let mut bytes = 1u64.to_le_bytes().to_vec();
    bytes.extend_from_slice(&e.to_le_bytes());
    let mut rd: &[u8] = &bytes[..];
    if let Ok(v) = Deserializer::bare_deserialize::<Vec<char>>(&mut rd, 0) {
        assert!(v.len() == 1);
        let raw = unsafe { *(&v[0] as *const char as *const u32) };
        assert!(raw < 0xD800 || (raw > 0xDFFF && raw <= 0x10FFFF), "C06: no invalid char values (UB) from corrupted input");
    }
}
/// Vec<u16> (bulk path): arbitrary 64-bit declared length with a short body: error, never a panic / overflow,
/// and a returned Vec never claims more elements than the input could encode.
pub fn mal_vec_u16_len<S: Src>(s: &mut S) {
    let n = s.u64();
    let body: [u8; 4] = s.bytes::<4>();
    let mut bytes = n.to_le_bytes().to_vec();
    bytes.extend_from_slice(&body);
    let mut rd: &[u8] = &bytes[..];
    // genuine out-of-memory on absurd lengths is excluded by the property: keep allocation sizes representable
    s.assume(n <= 2 || n >= (1u64 << 62));
    if let Ok(v) = Deserializer::bare_deserialize::<Vec<u16>>(&mut rd, 0) {
        assert!(v.len() <= 2, "C06: never more elements than the input could have encoded");
    }
}
/// SystemTime: arbitrary 16 bytes never panic.
pub fn mal_systemtime<S: Src>(s: &mut S) {
    let bytes: [u8; 16] = s.bytes::<16>();
    let mut rd: &[u8] = &bytes[..];
    let _ = Deserializer::bare_deserialize::<std::time::SystemTime>(&mut rd, 0);
}
/// Duration: arbitrary 16 bytes never panic.
pub fn mal_duration<S: Src>(s: &mut S) {
    let bytes: [u8; 16] = s.bytes::<16>();
    let mut rd: &[u8] = &bytes[..];
    let _ = Deserializer::bare_deserialize::<std::time::Duration>(&mut rd, 0);
}
/// ArrayVec<u8,4> (bulk path): arbitrary declared length: never more than the capacity, never out of bounds.
pub fn mal_arrayvec<S: Src>(s: &mut S) {
    let n = s.u64();
    s.assume(n <= 8);
    let body: [u8; 8] = s.bytes::<8>();
    let mut bytes = n.to_le_bytes().to_vec();
    bytes.extend_from_slice(&body);
    let mut rd: &[u8] = &bytes[..];
    if let Ok(v) = Deserializer::bare_deserialize::<arrayvec::ArrayVec<u8, 4>>(&mut rd, 0) {
        assert!(v.len() <= 4, "C06: ArrayVec never longer than its capacity");
    }
}
/// [bool; 2] (array bulk path)
pub fn mal_array_bool<S: Src>(s: &mut S) {
    let bytes: [u8; 2] = s.bytes::<2>();
    let mut rd: &[u8] = &bytes[..];
    if let Ok(v) = Deserializer::bare_deserialize::<[bool; 2]>(&mut rd, 0) {
        assert!(byte_of_bool(&v[0]) <= 1 && byte_of_bool(&v[1]) <= 1, "C06: no invalid bool values (UB) from corrupted input");
    }
}
