//! Native-only BOUNDED harness: round trip (C01) and pinned wire bytes (C02) of the hand-written library codecs that
//! neither verifier covers (net / time / chrono / lock / bit-vector / path / atomic types ...). The expected bytes are
//! GOLDEN: fixed here as text, following the documented format rules (little-endian fixed width, 64-bit length
//! prefixes, one-byte tags) and captured from the pinned build for the type-specific parts (they were reviewed by hand
//! where the rule is documented, e.g. IpAddr = tag ++ le(to_bits)); so "data written by one build is readable by every
//! later build" is checked against bytes that do not come from the build under test.
use crate::src::Src;
use savefile::prelude::*;
use savefile::{Deserializer, Serializer};

fn hex(s: &str) -> Vec<u8> {
    let t: Vec<u8> = s.bytes().filter(|b| !b.is_ascii_whitespace()).collect();
    (0..t.len() / 2).map(|i| u8::from_str_radix(std::str::from_utf8(&t[2 * i..2 * i + 2]).unwrap(), 16).unwrap()).collect()
}
/// bytes written == golden; golden loads to an equal value; exact consumption
fn golden<T: Serialize + Deserialize>(v: &T, expect_hex: &str, eq: &dyn Fn(&T, &T) -> bool, what: &str) {
    let mut out: Vec<u8> = Vec::new();
    assert!(Serializer::bare_serialize(&mut out, 0, v).is_ok(), "C01: saving {} succeeds", what);
    if std::env::var("VERIF_CAPTURE").is_ok() { println!("CAPTURE|{}|{}", what, out.iter().map(|b| format!("{:02x}", b)).collect::<String>()); return; }
    let exp = hex(expect_hex);
    assert!(out == exp, "C02: bytes written for {} are {:02x?}, the pinned encoding is {:02x?}", what, out, exp);
    let mut padded = exp.clone();
    padded.extend_from_slice(&[0xEE, 0xEE]);
    let mut rd: &[u8] = &padded[..];
    match Deserializer::bare_deserialize::<T>(&mut rd, 0) {
        Ok(b) => { assert!(eq(&b, v), "C01: {} does not come back equal", what); assert!(rd.len() == 2, "C01: loading {} consumes exactly the bytes saving produced", what); }
        Err(e) => panic!("C01/C02: the pinned encoding of {} must load: {:?}", what, e),
    }
}
fn g<T: Serialize + Deserialize + PartialEq>(v: T, expect_hex: &str, what: &str) { golden(&v, expect_hex, &|a: &T, b: &T| a == b, what) }

pub const CASES: usize = 80;
pub fn rt_library<S: Src>(s: &mut S) {
    let k = s.below(CASES);
    case(k);
}
pub fn case(k: usize) {
    use std::collections::*;
    use std::net::*;
    use std::sync::atomic::*;
    use std::time::{Duration, SystemTime};
    let t0 = SystemTime::UNIX_EPOCH;
    match k {
        0 => g(IpAddr::V4(Ipv4Addr::new(127, 0, 0, 1)), "000100007f", "IpAddr 127.0.0.1"),
        1 => g(IpAddr::V4(Ipv4Addr::new(10, 2, 3, 4)), "000403020a", "IpAddr 10.2.3.4"),
        2 => g(IpAddr::V6(Ipv6Addr::LOCALHOST), "0101000000000000000000000000000000", "IpAddr ::1"),
        3 => g(IpAddr::V6(Ipv6Addr::new(0x2001, 0xdb8, 0, 0, 0, 0xff00, 0x42, 0x8329)), "012983420000ff000000000000b80d0120", "IpAddr 2001:db8::ff00:42:8329"),
        4 => g(SocketAddr::V4(SocketAddrV4::new(Ipv4Addr::new(10, 2, 3, 4), 8080)), "00901f0403020a", "SocketAddr 10.2.3.4:8080"),
        5 => g(SocketAddr::V6(SocketAddrV6::new(Ipv6Addr::new(0x2001, 0xdb8, 0, 0, 0, 0, 0, 1), 443, 7, 9)), "01bb01010000000000000000000000b80d01200700000009000000", "SocketAddr [2001:db8::1]:443 flow 7 scope 9"),
        6 => g(Duration::new(5, 7), "07f2052a010000000000000000000000", "Duration 5s+7ns"),
        7 => g(Duration::ZERO, "00000000000000000000000000000000", "Duration 0"),
        8 => g(Duration::new(u64::MAX / 4, 999_999_999), "ffffffffffffffff7fb2e60e00000000", "Duration large"),
        9 => g(t0, "00000000000000000000000000000000", "SystemTime epoch"),
        10 => g(t0 + Duration::new(1, 500_000_000), "002f6859000000000000000000000000", "SystemTime epoch+1.5s"),
        11 => g(t0 - Duration::new(1, 500_000_000), "002f6859000000000000000000000080", "SystemTime epoch-1.5s"),
        12 => g(chrono::DateTime::<chrono::Utc>::from_timestamp(0, 0).unwrap(), "0000000000000000", "chrono epoch"),
        13 => g(chrono::DateTime::<chrono::Utc>::from_timestamp(-2, 500_000_000).unwrap(), "00d197a6ffffffff", "chrono 1969-12-31T23:59:58.5Z"),
        14 => g(chrono::DateTime::<chrono::Utc>::from_timestamp(0, 0).unwrap() - chrono::Duration::nanoseconds(1), "ffffffffffffffff", "chrono epoch-1ns"),
        15 => g(chrono::DateTime::<chrono::Utc>::from_timestamp(4_102_444_800, 123_456_789).unwrap(), "15cd015ecfcfee38", "chrono 2100-01-01+123456789ns"),
        16 => g(std::path::PathBuf::from("a/b"), "0300000000000000612f62", "PathBuf a/b"),
        17 => g("é€".to_string(), "0500000000000000c3a9e282ac", "String é€"),
        18 => g('€', "ac200000", "char €"),
        19 => g(Some(None::<u8>), "0100", "Option<Option<u8>> Some(None)"),
        20 => g(Some(Some(1u8)), "010101", "Option<Option<u8>> Some(Some(1))"),
        21 => g(Ok::<u8, String>(3), "0103", "Result<u8,String> Ok(3)"),
        22 => g(Err::<u8, String>("e".into()), "00010000000000000065", "Result<u8,String> Err(e)"),
        23 => g((1u8, (2u16, 3u32)), "01020003000000", "(u8,(u16,u32))"),
        24 => g([1u16, 2, 3], "010002000300", "[u16;3]"),
        25 => g(["a".to_string(), String::new()], "0100000000000000610000000000000000", "[String;2]"),
        26 => g(vec![1u8, 2, 3].into_boxed_slice(), "0300000000000000010203", "Box<[u8]>"),
        27 => { let a: std::sync::Arc<[u16]> = vec![1u16, 2].into(); g(a, "020000000000000001000200", "Arc<[u16]>") }
        28 => { let a: std::sync::Arc<str> = "hi".into(); g(a, "02000000000000006869", "Arc<str>") }
        29 => g(std::rc::Rc::new(7u8), "07", "Rc<u8>"),
        30 => g(std::cell::RefCell::new(7u8), "07", "RefCell<u8>"),
        31 => g(std::cell::Cell::new(7u8), "07", "Cell<u8>"),
        32 => g(Box::new(7u32), "07000000", "Box<u32>"),
        33 => g(vec![true, false, true], "0300000000000000010001", "Vec<bool>"),
        34 => g(vec![Some(1u8), None], "0200000000000000010100", "Vec<Option<u8>>"),
        35 => g([1u8, 2].into_iter().collect::<VecDeque<u8>>(), "02000000000000000102", "VecDeque<u8>"),
        36 => golden(&[3u8, 1, 2].into_iter().collect::<BinaryHeap<u8>>(), "0300000000000000030102", &|a: &BinaryHeap<u8>, b: &BinaryHeap<u8>| a.clone().into_sorted_vec() == b.clone().into_sorted_vec(), "BinaryHeap<u8>"),
        37 => g([(1u8, "x".to_string()), (2, String::new())].into_iter().collect::<BTreeMap<u8, String>>(), "020000000000000001010000000000000078020000000000000000", "BTreeMap<u8,String>"),
        38 => g([2u16, 1].into_iter().collect::<BTreeSet<u16>>(), "020000000000000001000200", "BTreeSet<u16>"),
        39 => g([(1u8, 2u8)].into_iter().collect::<HashMap<u8, u8>>(), "01000000000000000102", "HashMap<u8,u8> one entry"),
        40 => g([5u32].into_iter().collect::<HashSet<u32>>(), "010000000000000005000000", "HashSet<u32> one entry"),
        41 => golden(&parking_lot::Mutex::new(7u8), "07", &|a: &parking_lot::Mutex<u8>, b: &parking_lot::Mutex<u8>| *a.lock() == *b.lock(), "parking_lot::Mutex<u8>"),
        42 => golden(&parking_lot::RwLock::new(7u8), "07", &|a: &parking_lot::RwLock<u8>, b: &parking_lot::RwLock<u8>| *a.read() == *b.read(), "parking_lot::RwLock<u8>"),
        43 => golden(&std::sync::Mutex::new(7u8), "07", &|a: &std::sync::Mutex<u8>, b: &std::sync::Mutex<u8>| *a.lock().unwrap() == *b.lock().unwrap(), "std::sync::Mutex<u8>"),
        44 => golden(&AtomicU8::new(200), "c8", &|a: &AtomicU8, b: &AtomicU8| a.load(Ordering::SeqCst) == b.load(Ordering::SeqCst), "AtomicU8"),
        45 => golden(&AtomicI16::new(-2), "feff", &|a: &AtomicI16, b: &AtomicI16| a.load(Ordering::SeqCst) == b.load(Ordering::SeqCst), "AtomicI16"),
        46 => golden(&AtomicU32::new(0x01020304), "04030201", &|a: &AtomicU32, b: &AtomicU32| a.load(Ordering::SeqCst) == b.load(Ordering::SeqCst), "AtomicU32"),
        47 => golden(&AtomicI64::new(-3), "fdffffffffffffff", &|a: &AtomicI64, b: &AtomicI64| a.load(Ordering::SeqCst) == b.load(Ordering::SeqCst), "AtomicI64"),
        48 => golden(&AtomicBool::new(true), "01", &|a: &AtomicBool, b: &AtomicBool| a.load(Ordering::SeqCst) == b.load(Ordering::SeqCst), "AtomicBool"),
        49 => golden(&AtomicIsize::new(-1), "ffffffffffffffff", &|a: &AtomicIsize, b: &AtomicIsize| a.load(Ordering::SeqCst) == b.load(Ordering::SeqCst), "AtomicIsize"),
        50 => golden(&AtomicUsize::new(5), "0500000000000000", &|a: &AtomicUsize, b: &AtomicUsize| a.load(Ordering::SeqCst) == b.load(Ordering::SeqCst), "AtomicUsize"),
        51 => g(3u32..9u32, "0300000009000000", "Range<u32>"),
        52 => g(std::marker::PhantomData::<u8>, "", "PhantomData<u8>"),
        53 => g((), "", "()"),
        54 => { let mut b = bit_vec::BitVec::new(); for i in 0..11 { b.push(i % 3 == 0); } g(b, "0b00000000000000040000000000008049020000", "bit_vec 0.6 BitVec (11 bits)") }
        55 => { let mut b = bit_vec08::BitVec::new(); for i in 0..37 { b.push(i % 5 == 0); } g(b, "250000000000000008000000000000802184104208000000", "bit_vec 0.8 BitVec (37 bits)") }
        56 => { let mut b = bit_set::BitSet::new(); b.insert(1); b.insert(40); g(b, "290000000000000008000000000000800200000000010000", "bit_set 0.5 BitSet {1,40}") }
        57 => { let mut b = bit_set08::BitSet::new(); b.insert(0); b.insert(33); g(b, "220000000000000008000000000000800100000002000000", "bit_set 0.8 BitSet {0,33}") }
        58 => { let mut a = arrayvec::ArrayVec::<u16, 4>::new(); a.push(1); a.push(2); g(a, "020000000000000001000200", "ArrayVec<u16,4>") }
        59 => { let a = arrayvec::ArrayString::<8>::from("héj").unwrap(); g(a, "040000000000000068c3a96a", "ArrayString<8>") }
        60 => { let mut a = smallvec::SmallVec::<[u16; 2]>::new(); a.push(1); a.push(2); a.push(3); g(a, "0300000000000000010002000300", "SmallVec<[u16;2]> (spilled)") }
        61 => g([(1u8, 2u8), (0, 9)].into_iter().collect::<indexmap::IndexMap<u8, u8>>(), "020000000000000001020009", "IndexMap<u8,u8> (insertion order)"),
        62 => g([7u8, 1].into_iter().collect::<indexmap::IndexSet<u8>>(), "02000000000000000701", "IndexSet<u8> (insertion order)"),
        63 => golden(&f32::from_bits(0x7fc0_1234), "3412c07f", &|a: &f32, b: &f32| a.to_bits() == b.to_bits(), "f32 NaN with payload"),
        64 => golden(&-0.0f64, "0000000000000080", &|a: &f64, b: &f64| a.to_bits() == b.to_bits(), "f64 -0.0"),
        65 => g(i128::MIN, "00000000000000000000000000000080", "i128::MIN"),
        66 => g(u128::MAX, "ffffffffffffffffffffffffffffffff", "u128::MAX"),
        67 => g(-1isize, "ffffffffffffffff", "isize -1"),
        68 => g(usize::MAX, "ffffffffffffffff", "usize::MAX"),
        69 => g(savefile::Canary1::default(), "43685647", "Canary1"),
        70 => g(std::borrow::Cow::<str>::Owned("cow".into()), "0300000000000000636f77", "Cow<str>"),
        71 => g(vec![(1u8, 2u16), (3, 4)], "0200000000000000010200030400", "Vec<(u8,u16)>"),
        72 => g(vec![vec![1u32], vec![]], "02000000000000000100000000000000010000000000000000000000", "Vec<Vec<u32>>"),
        73 => g(Some(Box::new((1u8, "s".to_string()))), "0101010000000000000073", "Option<Box<(u8,String)>>"),
        74 => g([[1u8, 2], [3, 4]], "01020304", "[[u8;2];2]"),
        75 => g(vec!['a', '€'], "020000000000000061000000ac200000", "Vec<char>"),
        76 => g((1u8, 2u16, 3u32), "01020003000000", "(u8,u16,u32)"),
        77 => g(std::sync::Arc::new("s".to_string()), "010000000000000073", "Arc<String>"),
        78 => g(i8::MIN, "80", "i8::MIN"),
        _ => g(-2i16, "feff", "i16 -2"),
    }
}

// ---- nalgebra types (feature "nalgebra" of savefile): bitwise round trip, and bulk containers == element-wise -------
#[derive(savefile_derive::Savefile, Clone, Debug, PartialEq)]
#[repr(C)]
pub struct Stamped {
    pub pose: nalgebra::Isometry3<f64>,
    pub stamp: f64,
}
fn bits_iso(a: &nalgebra::Isometry3<f64>) -> Vec<u64> {
    let mut v: Vec<u64> = a.translation.vector.iter().map(|x| x.to_bits()).collect();
    v.extend(a.rotation.quaternion().coords.iter().map(|x| x.to_bits()));
    v
}
pub fn nalgebra_types<S: Src>(s: &mut S) {
    use nalgebra::{Isometry3, Point3, Translation3, UnitQuaternion, Vector3};
    fn ser<X: Serialize>(x: &X) -> Vec<u8> { let mut o = Vec::new(); assert!(Serializer::bare_serialize(&mut o, 0, x).is_ok()); o }
    fn de<X: Deserialize>(b: &[u8]) -> X { let mut rd: &[u8] = b; match Deserializer::bare_deserialize::<X>(&mut rd, 0) { Ok(x) => { assert!(rd.is_empty(), "C01: exact consumption"); x } Err(e) => panic!("C01: must load: {:?}", e) } }
    const ANGLES: [(f64, f64, f64); 5] = [(0.0, 1.0, 2.0), (-3.0, -1.5, 0.0), (0.1, 0.2, 0.3), (2.5, -0.7, 1.9), (3.0, 3.0, 3.0)];
    let (r, p, y) = ANGLES[s.below(ANGLES.len())];
    let t = [s.u8() as f64 * 0.5, -1.25, 1e-3];
    let iso = Isometry3::from_parts(Translation3::new(t[0], t[1], t[2]), UnitQuaternion::from_euler_angles(r, p, y));
    // single value: bitwise round trip (floats bit-for-bit)
    let one = ser(&iso);
    assert!(one.len() == 7 * 8, "C02: an Isometry3<f64> is seven f64");
    let back: Isometry3<f64> = de(&one);
    assert!(bits_iso(&back) == bits_iso(&iso), "C01: Isometry3 comes back bit-for-bit");
    // containers: bytes == length ++ element-wise encodings, and load element-wise equal
    let iso2 = Isometry3::from_parts(Translation3::new(9.0, 8.0, 7.0), UnitQuaternion::from_euler_angles(y, r, p));
    let v = vec![iso, iso2];
    let mut exp: Vec<u8> = 2u64.to_le_bytes().to_vec();
    exp.extend_from_slice(&one);
    exp.extend_from_slice(&ser(&iso2));
    assert!(ser(&v) == exp, "C04: Vec<Isometry3<f64>> bytes == length ++ element-wise encodings (no bulk copy of a reordered layout)");
    let vb: Vec<Isometry3<f64>> = de(&exp);
    assert!(bits_iso(&vb[0]) == bits_iso(&iso) && bits_iso(&vb[1]) == bits_iso(&iso2), "C04: Vec<Isometry3<f64>> loads element-wise equal");
    assert!(ser(&[iso, iso2]) == exp[8..], "C04: [Isometry3<f64>;2] bytes == element-wise encodings");
    let st = Stamped { pose: iso, stamp: 2.5 };
    let sb: Stamped = de(&ser(&st));
    assert!(bits_iso(&sb.pose) == bits_iso(&iso) && sb.stamp == 2.5, "C01/C04: a repr(C) struct holding an Isometry3 round-trips");
    let mut expst = one.clone();
    expst.extend_from_slice(&2.5f64.to_le_bytes());
    assert!(ser(&st) == expst, "C04: the struct's bytes are its fields' encodings in declaration order");
    // Point3 / Vector3: three scalars in x, y, z order, alone and in a Vec
    let pt = Point3::new(1.5f64, -2.0, t[0]);
    let mut e3: Vec<u8> = Vec::new();
    for c in [1.5f64, -2.0, t[0]] { e3.extend_from_slice(&c.to_le_bytes()); }
    assert!(ser(&pt) == e3 && de::<Point3<f64>>(&e3) == pt, "C01/C02: Point3<f64>");
    let vc = Vector3::new(1.0f32, 2.0, 3.0);
    let mut e4: Vec<u8> = Vec::new();
    for c in [1.0f32, 2.0, 3.0] { e4.extend_from_slice(&c.to_le_bytes()); }
    assert!(ser(&vc) == e4 && de::<Vector3<f32>>(&e4) == vc, "C01/C02: Vector3<f32>");
    let mut ev: Vec<u8> = 2u64.to_le_bytes().to_vec();
    ev.extend_from_slice(&e3); ev.extend_from_slice(&e3);
    assert!(ser(&vec![pt, pt]) == ev, "C04: Vec<Point3<f64>> bytes == length ++ element-wise encodings");
}
