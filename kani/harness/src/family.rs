//! Generic contract harness bodies over the generated derive family (src/family_gen.rs).
use crate::leaves::codec_contract;
use crate::refenc::{ref_bytes, RefEnc};
use crate::src::Src;
use savefile::prelude::*;
use savefile::{Deserializer, Serializer};

pub trait Fam: Serialize + Deserialize + WithSchema + Packed + RefEnc + Sized + Clone {
    const VERSION: u32;
    const NAME: &'static str;
    fn sym<S: Src>(s: &mut S) -> Self;
}

/// strings over a 2-letter alphabet, length <= 2 (bounded; CBMC cost)
pub fn sym_string<S: Src>(s: &mut S) -> String {
    let n = s.u8();
    s.assume(n <= 2);
    let mut out = String::new();
    let mut i = 0;
    while i < n { out.push(if s.bool() { 'a' } else { 'b' }); i += 1; }
    out
}
pub fn sym_vec<S: Src, T>(s: &mut S, mut f: impl FnMut(&mut S) -> T) -> Vec<T> {
    let n = s.u8();
    s.assume(n <= 2);
    let mut out = Vec::new();
    let mut i = 0;
    while i < n { out.push(f(s)); i += 1; }
    out
}

/// equality as the property asks for it: the reference encoding is injective on these types and
/// compares floats by bit pattern.
pub fn same<T: RefEnc>(a: &T, b: &T, v: u32) -> bool { ref_bytes(a, v) == ref_bytes(b, v) }

/// C01 + C02 at the definition's current version: absolute bytes, value equality, exact consumption.
pub fn roundtrip<T: Fam, S: Src>(s: &mut S) {
    let v = T::sym(s);
    codec_contract(&v, T::VERSION, |a, b| same(a, b, T::VERSION));
}

/// C04 decision soundness (and C18's "never packed for a version whose wire layout differs"):
/// repr_c_optimization_safe(ver).is_yes()  ==>  size_of::<T>() == |enc(x, ver)| and the raw memory
/// image of x equals enc(x, ver), for all x and all ver <= current.
pub fn packed_sound<T: Fam, S: Src>(s: &mut S) {
    let v = T::sym(s);
    let ver = s.u32();
    s.assume(ver <= T::VERSION);
    let yes = unsafe { T::repr_c_optimization_safe(ver) }.is_yes();
    if yes {
        let exp = ref_bytes(&v, ver);
        assert!(core::mem::size_of::<T>() == exp.len(), "C04: packed type has no padding (size == encoded length)");
        let raw = unsafe { core::slice::from_raw_parts(&v as *const T as *const u8, core::mem::size_of::<T>()) };
        assert!(raw == &exp[..], "C04: memory image equals field-by-field encoding");
    }
}

/// C04 transparency for Vec<T> (bulk path when T is packed): bytes == le(n,8) ++ concat(enc(x_i)) and
/// loading yields element-wise equal values, consuming everything.
pub fn vec_transparent<T: Fam, S: Src>(s: &mut S) {
    let a = T::sym(s);
    let b = T::sym(s);
    let ver = T::VERSION;
    let mut exp: Vec<u8> = Vec::new();
    exp.extend_from_slice(&2u64.to_le_bytes());
    a.renc(ver, &mut exp);
    b.renc(ver, &mut exp);
    let v = vec![a.clone(), b.clone()];
    let mut buf: Vec<u8> = Vec::new();
    let r = Serializer::bare_serialize(&mut buf, ver, &v);
    assert!(r.is_ok());
    assert!(buf == exp, "C04/C02: Vec<T> bytes == length prefix ++ element-wise encodings");
    let mut rd: &[u8] = &buf[..];
    match Deserializer::bare_deserialize::<Vec<T>>(&mut rd, ver) {
        Ok(back) => {
            assert!(back.len() == 2, "C01: length");
            assert!(same(&back[0], &a, ver) && same(&back[1], &b, ver), "C04/C01: Vec<T> loaded == element-wise loaded");
            assert!(rd.is_empty(), "C01: exact consumption");
        }
        Err(_) => assert!(false, "C01: loading saved bytes must succeed"),
    }
}

/// The value the documented evolution rules prescribe when data saved by `Old` is loaded by `Self`.
pub trait Evolve<Old>: Sized { fn expect_from(old: &Old) -> Self; }
/// The value the `Old` definition must read when `Self` is written at `Old`'s version.
pub trait Project<Old>: Sized { fn project(&self) -> Old; }

/// C03: bytes written by the version-i definition (cross-checked against the reference encoding) are
/// loaded by the version-j definition through load_noschema with the file's version = i.
pub fn evolve_load<Old: Fam, New: Fam + Evolve<Old>, S: Src>(s: &mut S) {
    let old = Old::sym(s);
    let payload = ref_bytes(&old, Old::VERSION);
    let mut real: Vec<u8> = Vec::with_capacity(64);
    let r = Serializer::bare_serialize(&mut real, Old::VERSION, &old);
    assert!(r.is_ok());
    assert!(real == payload, "C02: version-i definition writes the documented bytes");
    let mut file = crate::refenc::ref_header(2, Old::VERSION, false);
    file.extend_from_slice(&payload);
    let mut rd: &[u8] = &file[..];
    match savefile::load_noschema::<New>(&mut rd, New::VERSION) {
        Ok(n) => {
            let exp = New::expect_from(&old);
            assert!(same(&n, &exp, New::VERSION), "C03: retained fields equal, added fields default, converted fields converted");
            assert!(rd.is_empty(), "C03: removed fields skipped exactly");
        }
        Err(_) => assert!(false, "C03: data saved at an earlier version must load"),
    }
}

/// C03 (+C04): same, for a Vec of two elements (bulk path must not be taken for old layouts).
pub fn evolve_load_vec<Old: Fam, New: Fam + Evolve<Old>, S: Src>(s: &mut S) {
    let o1 = Old::sym(s);
    let o2 = Old::sym(s);
    let mut file = crate::refenc::ref_header(2, Old::VERSION, false);
    file.extend_from_slice(&2u64.to_le_bytes());
    o1.renc(Old::VERSION, &mut file);
    o2.renc(Old::VERSION, &mut file);
    let mut rd: &[u8] = &file[..];
    match savefile::load_noschema::<Vec<New>>(&mut rd, New::VERSION) {
        Ok(n) => {
            assert!(n.len() == 2);
            assert!(same(&n[0], &New::expect_from(&o1), New::VERSION) && same(&n[1], &New::expect_from(&o2), New::VERSION),
                "C03: elements of a Vec evolve like single values");
            assert!(rd.is_empty());
        }
        Err(_) => assert!(false, "C03: data saved at an earlier version must load"),
    }
}

/// C18 (single definition): writing at any version k <= current gives the version-k encoding.
pub fn write_older<T: Fam, S: Src>(s: &mut S) {
    let v = T::sym(s);
    let k = s.u32();
    s.assume(k <= T::VERSION);
    let mut buf: Vec<u8> = Vec::with_capacity(64);
    let r = Serializer::bare_serialize(&mut buf, k, &v);
    assert!(r.is_ok());
    assert!(buf == ref_bytes(&v, k), "C18: fields added later omitted, AbiRemoved fields written as constructed value");
}

/// C18 (history): the version-n definition writes version k; the version-k definition reads it back.
pub fn write_older_read<New: Fam + Project<Old>, Old: Fam, S: Src>(s: &mut S) {
    let v = New::sym(s);
    let k = Old::VERSION;
    let mut buf: Vec<u8> = Vec::with_capacity(64);
    let r = Serializer::bare_serialize(&mut buf, k, &v);
    assert!(r.is_ok());
    let exp = v.project();
    assert!(buf == ref_bytes(&exp, k), "C18: bytes equal what the version-k definition writes for the projected value");
    let mut rd: &[u8] = &buf[..];
    match Deserializer::bare_deserialize::<Old>(&mut rd, k) {
        Ok(o) => { assert!(same(&o, &exp, k), "C18: older definition reads the projected value"); assert!(rd.is_empty()); }
        Err(_) => assert!(false, "C18: older definition must read data written at its version"),
    }
}

/// C17 for derive-generated Introspect: for ALL indices (full usize domain) a child can be fetched exactly when the
/// index is below introspect_len(), i.e. children are indexed consecutively from zero and the count is truthful.
pub fn intro_index<T: Fam + savefile::Introspect, S: Src>(s: &mut S) {
    let v = T::sym(s);
    let i = s.usize();
    let n = v.introspect_len();
    let c = v.introspect_child(i);
    let some = c.is_some();
    core::mem::forget(c);
    assert!(some == (i < n), "C17: introspect_child(i) is Some exactly for i < introspect_len()");
}
