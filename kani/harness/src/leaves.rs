//! Leaf codecs: contract of serialize (absolute bytes, C02) and deserialize∘serialize = id with
//! exact consumption (C01), for all values and all data versions. Loop-free => complete proofs.
use crate::refenc::{ref_bytes, RefEnc};
use crate::src::Src;
use savefile::prelude::*;
use savefile::{Deserializer, Serializer};

/// The monomorphic contract wrapper: postconditions of bare_serialize / bare_deserialize for T.
/// `same` is the equality the property asks for (bitwise for floats).
pub fn codec_contract<T: Serialize + Deserialize + RefEnc>(v: &T, version: u32, same: impl Fn(&T, &T) -> bool) {
    let mut buf: Vec<u8> = Vec::new();
    let r = Serializer::bare_serialize(&mut buf, version, v);
    assert!(r.is_ok(), "serialize into memory must succeed");
    let expect = ref_bytes(v, version);
    assert!(buf == expect, "C02: bytes equal the documented encoding");
    let mut rd: &[u8] = &buf[..];
    let back = Deserializer::bare_deserialize::<T>(&mut rd, version);
    match back {
        Ok(b) => {
            assert!(same(&b, v), "C01: loaded value equals saved value");
            assert!(rd.is_empty(), "C01: load consumes exactly the bytes save produced");
        }
        Err(_) => assert!(false, "C01: loading saved bytes must succeed"),
    }
}

macro_rules! leaf {
    ($name:ident, $t:ty, $get:ident) => {
        pub fn $name<S: Src>(s: &mut S) {
            let v: $t = s.$get();
            let ver = s.u32();
            codec_contract(&v, ver, |a, b| a == b);
        }
    };
}
leaf!(leaf_u8, u8, u8);
leaf!(leaf_i8, i8, i8);
leaf!(leaf_u16, u16, u16);
leaf!(leaf_i16, i16, i16);
leaf!(leaf_u32, u32, u32);
leaf!(leaf_i32, i32, i32);
leaf!(leaf_u64, u64, u64);
leaf!(leaf_i64, i64, i64);
leaf!(leaf_u128, u128, u128);
leaf!(leaf_i128, i128, i128);
leaf!(leaf_usize, usize, usize);
leaf!(leaf_isize, isize, isize);
leaf!(leaf_bool, bool, bool);
leaf!(leaf_char, char, char);
pub fn leaf_f32<S: Src>(s: &mut S) {
    let v = s.f32();
    let ver = s.u32();
    codec_contract(&v, ver, |a, b| a.to_bits() == b.to_bits());
}
pub fn leaf_f64<S: Src>(s: &mut S) {
    let v = s.f64();
    let ver = s.u32();
    codec_contract(&v, ver, |a, b| a.to_bits() == b.to_bits());
}

// ---- net / time leaves: all values -------------------------------------------------------------------------------
pub fn leaf_ipaddr<S: Src>(s: &mut S) {
    let v = if s.bool() { std::net::IpAddr::V4(std::net::Ipv4Addr::from(s.bytes::<4>())) } else { std::net::IpAddr::V6(std::net::Ipv6Addr::from(s.bytes::<16>())) };
    codec_contract(&v, 0, |a, b| a == b);
}
pub fn leaf_socketaddr<S: Src>(s: &mut S) {
    let port = s.u16();
    let v = if s.bool() {
        std::net::SocketAddr::V4(std::net::SocketAddrV4::new(std::net::Ipv4Addr::from(s.bytes::<4>()), port))
    } else {
        std::net::SocketAddr::V6(std::net::SocketAddrV6::new(std::net::Ipv6Addr::from(s.bytes::<16>()), port, s.u32(), s.u32()))
    };
    codec_contract(&v, 0, |a, b| a == b);
}
// (Duration and SystemTime are not harnessed here: the 128-bit division/modulo by 10^9 in their codecs makes CBMC run
//  out of time (> 15 min); they are covered only by the bounded native harness nrt_library and by mal_duration /
//  mal_systemtime for panic freedom.)
