//! Source of nondeterministic values: symbolic under Kani, concrete under replay.
pub trait Src {
    fn u8(&mut self) -> u8;
    fn u16(&mut self) -> u16;
    fn u32(&mut self) -> u32;
    fn u64(&mut self) -> u64;
    fn u128(&mut self) -> u128;
    fn bool(&mut self) -> bool;
    fn assume(&mut self, c: bool);
    fn usize(&mut self) -> usize { self.u64() as usize }
    fn i8(&mut self) -> i8 { self.u8() as i8 }
    fn i16(&mut self) -> i16 { self.u16() as i16 }
    fn i32(&mut self) -> i32 { self.u32() as i32 }
    fn i64(&mut self) -> i64 { self.u64() as i64 }
    fn i128(&mut self) -> i128 { self.u128() as i128 }
    fn isize(&mut self) -> isize { self.u64() as isize }
    fn f32(&mut self) -> f32 { f32::from_bits(self.u32()) }
    fn f64(&mut self) -> f64 { f64::from_bits(self.u64()) }
    fn char(&mut self) -> char {
        let x = self.u32();
        let ok = x < 0xD800 || (x > 0xDFFF && x <= 0x10FFFF);
        self.assume(ok);
        match char::from_u32(x) { Some(c) => c, None => 'a' }
    }
    fn bytes<const N: usize>(&mut self) -> [u8; N] {
        let mut a = [0u8; N];
        let mut i = 0;
        while i < N { a[i] = self.u8(); i += 1; }
        a
    }
    /// value in 0..n  (n > 0)
    fn below(&mut self, n: usize) -> usize {
        let x = self.usize();
        self.assume(x < n);
        x
    }
}

#[cfg(kani)]
pub struct KaniSrc;
#[cfg(kani)]
impl Src for KaniSrc {
    fn u8(&mut self) -> u8 { kani::any() }
    fn u16(&mut self) -> u16 { kani::any() }
    fn u32(&mut self) -> u32 { kani::any() }
    fn u64(&mut self) -> u64 { kani::any() }
    fn u128(&mut self) -> u128 { kani::any() }
    fn bool(&mut self) -> bool { kani::any() }
    fn assume(&mut self, c: bool) { kani::assume(c) }
    // one symbolic array (element-wise any(), same order as the default loop, cheaper for CBMC)
    fn bytes<const N: usize>(&mut self) -> [u8; N] { kani::any() }
}

/// Replays the concrete values of a Kani counterexample (`concrete_vals`, in the order the
/// harness asked for them) against the same harness body, compiled natively.
pub struct ReplaySrc {
    pub vals: Vec<Vec<u8>>,
    pub pos: usize,
    pub diverged: bool,
}
impl ReplaySrc {
    pub fn new(vals: Vec<Vec<u8>>) -> Self { ReplaySrc { vals, pos: 0, diverged: false } }
    fn next(&mut self, n: usize) -> u128 {
        let mut out = [0u8; 16];
        if self.pos < self.vals.len() {
            let v = &self.vals[self.pos];
            for i in 0..n.min(v.len()) { out[i] = v[i]; }
        }
        self.pos += 1;
        u128::from_le_bytes(out)
    }
}
impl Src for ReplaySrc {
    fn u8(&mut self) -> u8 { self.next(1) as u8 }
    fn u16(&mut self) -> u16 { self.next(2) as u16 }
    fn u32(&mut self) -> u32 { self.next(4) as u32 }
    fn u64(&mut self) -> u64 { self.next(8) as u64 }
    fn u128(&mut self) -> u128 { self.next(16) }
    fn bool(&mut self) -> bool { self.next(1) != 0 }
    fn assume(&mut self, c: bool) {
        if !c {
            self.diverged = true;
            eprintln!("REPLAY-DIVERGED: an assumption of the harness does not hold for these values");
            std::process::exit(3);
        }
    }
}
