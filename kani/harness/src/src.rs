//! Source of nondeterministic values: symbolic under Kani, concrete under replay.
pub trait Src {
    fn u8(&mut self) -> u8;
    fn u16(&mut self) -> u16;
    fn u32(&mut self) -> u32;
    fn u64(&mut self) -> u64;
    fn u128(&mut self) -> u128;
    fn bool(&mut self) -> bool;
    fn assume(&mut self, c: bool);
    fn usize(&mut self) -> usize { self.u64() as usize }
    fn i8(&mut self) -> i8 { self.u8() as i8 }
    fn i16(&mut self) -> i16 { self.u16() as i16 }
    fn i32(&mut self) -> i32 { self.u32() as i32 }
    fn i64(&mut self) -> i64 { self.u64() as i64 }
    fn i128(&mut self) -> i128 { self.u128() as i128 }
    fn isize(&mut self) -> isize { self.u64() as isize }
    fn f32(&mut self) -> f32 { f32::from_bits(self.u32()) }
    fn f64(&mut self) -> f64 { f64::from_bits(self.u64()) }
    fn char(&mut self) -> char {
        let x = self.u32();
        let ok = x < 0xD800 || (x > 0xDFFF && x <= 0x10FFFF);
        self.assume(ok);
        match char::from_u32(x) { Some(c) => c, None => 'a' }
    }
    fn bytes<const N: usize>(&mut self) -> [u8; N] {
        let mut a = [0u8; N];
        let mut i = 0;
        while i < N { a[i] = self.u8(); i += 1; }
        a
    }
    /// value in 0..n  (n > 0)
    fn below(&mut self, n: usize) -> usize {
        let x = self.usize();
        self.assume(x < n);
        x
    }
}

#[cfg(kani)]
pub struct KaniSrc;
#[cfg(kani)]
impl Src for KaniSrc {
    fn u8(&mut self) -> u8 { kani::any() }
    fn u16(&mut self) -> u16 { kani::any() }
    fn u32(&mut self) -> u32 { kani::any() }
    fn u64(&mut self) -> u64 { kani::any() }
    fn u128(&mut self) -> u128 { kani::any() }
    fn bool(&mut self) -> bool { kani::any() }
    fn assume(&mut self, c: bool) { kani::assume(c) }
    // one symbolic array (element-wise any(), same order as the default loop, cheaper for CBMC)
    fn bytes<const N: usize>(&mut self) -> [u8; N] { kani::any() }
}

/// Replays the concrete values of a Kani counterexample (`concrete_vals`, in the order the
/// harness asked for them) against the same harness body, compiled natively.
pub struct ReplaySrc {
    pub vals: Vec<Vec<u8>>,
    pub pos: usize,
    pub diverged: bool,
}
impl ReplaySrc {
    pub fn new(vals: Vec<Vec<u8>>) -> Self { ReplaySrc { vals, pos: 0, diverged: false } }
    fn next(&mut self, n: usize) -> u128 {
        let mut out = [0u8; 16];
        if self.pos < self.vals.len() {
            let v = &self.vals[self.pos];
            for i in 0..n.min(v.len()) { out[i] = v[i]; }
        }
        self.pos += 1;
        u128::from_le_bytes(out)
    }
}
impl Src for ReplaySrc {
    fn u8(&mut self) -> u8 { self.next(1) as u8 }
    fn u16(&mut self) -> u16 { self.next(2) as u16 }
    fn u32(&mut self) -> u32 { self.next(4) as u32 }
    fn u64(&mut self) -> u64 { self.next(8) as u64 }
    fn u128(&mut self) -> u128 { self.next(16) }
    fn bool(&mut self) -> bool { self.next(1) != 0 }
    fn assume(&mut self, c: bool) {
        if !c {
            self.diverged = true;
            eprintln!("REPLAY-DIVERGED: an assumption of the harness does not hold for these values");
            std::process::exit(3);
        }
    }
}

/// Small-scope enumeration source (native only): every draw ranges over a small domain of representative
/// values; the driver loop in replay.rs steps through all combinations like a mixed-radix counter.
/// Used for BOUNDED stand-in checks of functions CBMC cannot handle (heap-heavy schema code).
pub struct EnumSrc {
    pub digits: Vec<usize>,   // current choice per draw position
    pub radix: Vec<usize>,    // domain size seen at each draw position in the current run
    pub pos: usize,
    pub rejected: bool,
}
const U8_DOM: [u8; 5] = [0, 1, 2, 3, 255];
const U16_DOM: [u16; 4] = [0, 1, 2, 0xffff];
const U32_DOM: [u32; 4] = [0, 1, 2, 0xffff_ffff];
const U64_DOM: [u64; 5] = [0, 1, 2, 1 << 62, u64::MAX];
// thorough tier (VERIF_ENUM_WIDE=1): more representatives per draw (sign/width boundaries, a surrogate-range value)
const U8_WIDE: [u8; 9] = [0, 1, 2, 3, 127, 128, 200, 254, 255];
const U16_WIDE: [u16; 8] = [0, 1, 2, 255, 256, 0x7fff, 0x8000, 0xffff];
const U32_WIDE: [u32; 9] = [0, 1, 2, 255, 65536, 0xD800, 0x7fff_ffff, 0x8000_0000, 0xffff_ffff];
const U64_WIDE: [u64; 8] = [0, 1, 2, 0xffff_ffff, 1 << 32, 1 << 62, 1 << 63, u64::MAX];
fn wide() -> bool {
    static W: std::sync::OnceLock<bool> = std::sync::OnceLock::new();
    *W.get_or_init(|| std::env::var("VERIF_ENUM_WIDE").map(|v| v == "1").unwrap_or(false))
}
impl EnumSrc {
    pub fn new() -> Self { EnumSrc { digits: Vec::new(), radix: Vec::new(), pos: 0, rejected: false } }
    fn pick(&mut self, n: usize) -> usize {
        if self.pos >= self.digits.len() { self.digits.push(0); self.radix.push(n); }
        self.radix[self.pos] = n;
        let d = self.digits[self.pos] % n;
        self.pos += 1;
        d
    }
    /// advance to the next combination; false when exhausted
    pub fn step(&mut self) -> bool {
        // only positions actually drawn in the last run count
        let used = self.pos;
        self.digits.truncate(used);
        self.radix.truncate(used);
        let mut i = used;
        while i > 0 {
            i -= 1;
            if self.digits[i] + 1 < self.radix[i] {
                self.digits[i] += 1;
                self.digits.truncate(i + 1);
                self.radix.truncate(i + 1);
                self.pos = 0;
                self.rejected = false;
                return true;
            }
        }
        false
    }
}
pub struct Rejected;
impl Src for EnumSrc {
    fn u8(&mut self) -> u8 { if wide() { U8_WIDE[self.pick(U8_WIDE.len())] } else { U8_DOM[self.pick(U8_DOM.len())] } }
    fn u16(&mut self) -> u16 { if wide() { U16_WIDE[self.pick(U16_WIDE.len())] } else { U16_DOM[self.pick(U16_DOM.len())] } }
    fn u32(&mut self) -> u32 { if wide() { U32_WIDE[self.pick(U32_WIDE.len())] } else { U32_DOM[self.pick(U32_DOM.len())] } }
    fn u64(&mut self) -> u64 { if wide() { U64_WIDE[self.pick(U64_WIDE.len())] } else { U64_DOM[self.pick(U64_DOM.len())] } }
    fn u128(&mut self) -> u128 { self.u64() as u128 }
    fn bool(&mut self) -> bool { self.pick(2) == 1 }
    fn assume(&mut self, c: bool) { if !c { self.rejected = true; std::panic::panic_any(Rejected); } }
    /// every value of 0..n is a separate choice (not the small u64 domain filtered by an assumption)
    fn below(&mut self, n: usize) -> usize { self.pick(n) }
}
