//! C12: an independent generic reader driven ONLY by a `Schema` value, written from the documentation of the
//! Schema node kinds. It walks serialized data and returns the end position, or None if the data does not
//! conform to the schema (wrong tag, unknown discriminant, running out of input).
use crate::family::Fam;
use crate::src::Src;
use savefile::prelude::*;
use savefile::{Schema, SchemaPrimitive, Serializer};

fn le_u64(b: &[u8], pos: usize) -> Option<u64> {
    if pos + 8 > b.len() { return None; }
    let mut a = [0u8; 8];
    let mut i = 0;
    while i < 8 { a[i] = b[pos + i]; i += 1; }
    Some(u64::from_le_bytes(a))
}

fn prim_width(p: &SchemaPrimitive) -> Option<usize> {
    Some(match p {
        SchemaPrimitive::schema_i8 | SchemaPrimitive::schema_u8 | SchemaPrimitive::schema_bool => 1,
        SchemaPrimitive::schema_i16 | SchemaPrimitive::schema_u16 => 2,
        SchemaPrimitive::schema_i32 | SchemaPrimitive::schema_u32 | SchemaPrimitive::schema_f32
        | SchemaPrimitive::schema_canary1 | SchemaPrimitive::schema_char => 4,
        SchemaPrimitive::schema_i64 | SchemaPrimitive::schema_u64 | SchemaPrimitive::schema_f64 => 8,
        SchemaPrimitive::schema_i128 | SchemaPrimitive::schema_u128 => 16,
        SchemaPrimitive::schema_string(_) => return None,
    })
}

/// Statistics recovered by the walk, compared with the value's own structure.
#[derive(Default, Clone, Copy, PartialEq, Eq, Debug)]
pub struct Walk { pub leaves: u32, pub structs: u32, pub enums: u32, pub last_discriminant: u32 }

pub fn walk(schema: &Schema, b: &[u8], pos: usize, w: &mut Walk, depth: u32) -> Option<usize> {
    if depth > 6 { return None; }
    match schema {
        Schema::Struct(s) => {
            w.structs += 1;
            let mut p = pos;
            for f in s.fields.iter() { p = walk(&f.value, b, p, w, depth + 1)?; }
            Some(p)
        }
        Schema::Enum(e) => {
            w.enums += 1;
            let n = e.discriminant_size as usize;
            if n != 1 && n != 2 && n != 4 { return None; }
            if pos + n > b.len() { return None; }
            let mut d: u32 = 0;
            let mut i = 0;
            while i < n { d |= (b[pos + i] as u32) << (8 * i); i += 1; }
            w.last_discriminant = d;
            let mut p = pos + n;
            // the variant whose discriminant is stored
            let mut found = false;
            for v in e.variants.iter() {
                if v.discriminant as u32 == (d & 0xff) && !found && (d <= 0xff) {
                    found = true;
                    for f in v.fields.iter() { p = walk(&f.value, b, p, w, depth + 1)?; }
                }
            }
            if !found { return None; }
            Some(p)
        }
        Schema::Primitive(SchemaPrimitive::schema_string(_)) => {
            w.leaves += 1;
            let n = le_u64(b, pos)? as usize;
            if n > b.len() || pos + 8 + n > b.len() { return None; }
            Some(pos + 8 + n)
        }
        Schema::Primitive(p) => {
            w.leaves += 1;
            let n = prim_width(p)?;
            if pos + n > b.len() { return None; }
            if let SchemaPrimitive::schema_bool = p { if b[pos] > 1 { return None; } }
            Some(pos + n)
        }
        Schema::Vector(item, _) => {
            let n = le_u64(b, pos)?;
            if n > 64 { return None; }
            let mut p = pos + 8;
            let mut i = 0;
            while i < n { p = walk(item, b, p, w, depth + 1)?; i += 1; }
            Some(p)
        }
        Schema::Array(a) => {
            if a.count > 64 { return None; }
            let mut p = pos;
            let mut i = 0;
            while i < a.count { p = walk(&a.item_type, b, p, w, depth + 1)?; i += 1; }
            Some(p)
        }
        Schema::SchemaOption(inner) => {
            if pos + 1 > b.len() { return None; }
            match b[pos] { 0 => Some(pos + 1), 1 => walk(inner, b, pos + 1, w, depth + 1), _ => None }
        }
        Schema::ZeroSize => Some(pos),
        Schema::Boxed(inner) => walk(inner, b, pos, w, depth + 1),
        _ => None,
    }
}

fn has_recursion(schema: &Schema, depth: u32) -> bool {
    if depth > 6 { return true; }
    match schema {
        Schema::Recursion(_) => true,
        Schema::Struct(s) => { let mut r = false; for f in s.fields.iter() { r = r || has_recursion(&f.value, depth + 1); } r }
        Schema::Enum(e) => { let mut r = false; for v in e.variants.iter() { for f in v.fields.iter() { r = r || has_recursion(&f.value, depth + 1); } } r }
        Schema::Vector(i, _) | Schema::SchemaOption(i) | Schema::Boxed(i) => has_recursion(i, depth + 1),
        Schema::Array(a) => has_recursion(&a.item_type, depth + 1),
        _ => false,
    }
}

/// C12: the schema of T at its version describes the bytes written for every value: the schema-driven walk
/// consumes exactly the serialized data; non-recursive family types have no recursion markers.
pub fn schema_faithful<T: Fam, S: Src>(s: &mut S) {
    let v = T::sym(s);
    let schema = savefile::get_schema::<T>(T::VERSION);
    let mut buf: Vec<u8> = Vec::with_capacity(64);
    assert!(Serializer::bare_serialize(&mut buf, T::VERSION, &v).is_ok());
    let mut w = Walk::default();
    let end = walk(&schema, &buf, 0, &mut w, 0);
    assert!(end == Some(buf.len()), "C12: a reader driven only by the schema parses the data completely and without error");
    assert!(!has_recursion(&schema, 0), "C12: non-recursive types never yield recursion markers");
}

/// C12 at every version the definition can be written at (ABI peers and old files use older versions): the schema
/// reported for version v describes the bytes written at version v.
pub fn schema_faithful_versions<T: Fam, S: Src>(s: &mut S) {
    let v = T::sym(s);
    let ver = s.below(T::VERSION as usize + 1) as u32;
    schema_faithful_value(&v, ver, T::NAME);
}

/// C12 for library types (native enumeration): same statement for a value of any serializable type.
pub fn schema_faithful_value<T: savefile::Serialize + savefile::WithSchema>(v: &T, version: u32, what: &str) {
    let schema = savefile::get_schema::<T>(version);
    let mut buf: Vec<u8> = Vec::with_capacity(64);
    assert!(Serializer::bare_serialize(&mut buf, version, v).is_ok());
    let mut w = Walk::default();
    let end = walk(&schema, &buf, 0, &mut w, 0);
    assert!(end == Some(buf.len()), "C12: a reader driven only by the schema parses the data completely and without error [{}]", what);
    assert!(!has_recursion(&schema, 0), "C12: non-recursive types never yield recursion markers [{}]", what);
}

/// C12, library containers (small-scope values)
pub fn schema_library<S: Src>(s: &mut S) {
    use std::collections::{BTreeMap, BTreeSet, VecDeque};
    let (a, b, c) = (s.u8(), s.u32(), s.u16());
    let n = s.u8();
    s.assume(n <= 2);
    let mut v32: Vec<u32> = Vec::new();
    let mut i = 0;
    while i < n { v32.push(b.wrapping_add(i as u32)); i += 1; }
    schema_faithful_value(&v32, 0, "Vec<u32>");
    schema_faithful_value(&(a, b), 0, "(u8,u32)");
    schema_faithful_value(&(a, b, c), 0, "(u8,u32,u16)");
    schema_faithful_value(&Some(c), 0, "Option<u16>");
    schema_faithful_value(&None::<u16>, 0, "Option<u16>");
    schema_faithful_value(&[c, c.wrapping_add(1)], 0, "[u16;2]");
    schema_faithful_value(&Box::new(b), 0, "Box<u32>");
    schema_faithful_value(&String::from(if s.bool() { "ab" } else { "" }), 0, "String");
    let mut m: BTreeMap<u32, Vec<u32>> = BTreeMap::new();
    if n >= 1 { m.insert(b, v32.clone()); }
    schema_faithful_value(&m, 0, "BTreeMap<u32,Vec<u32>>");
    let mut m2: BTreeMap<String, Box<String>> = BTreeMap::new();
    if n >= 1 { m2.insert("k".to_string(), Box::new("v".to_string())); }
    schema_faithful_value(&m2, 0, "BTreeMap<String,Box<String>>");
    let mut m3: BTreeMap<u8, [u8; 4]> = BTreeMap::new();
    if n >= 1 { m3.insert(a, [a, a, a, a]); }
    schema_faithful_value(&m3, 0, "BTreeMap<u8,[u8;4]>");
    let mut bs: BTreeSet<u16> = BTreeSet::new();
    if n >= 1 { bs.insert(c); }
    schema_faithful_value(&bs, 0, "BTreeSet<u16>");
    let mut dq: VecDeque<u32> = VecDeque::new();
    if n >= 1 { dq.push_back(b); dq.push_front(b.wrapping_add(1)); }
    schema_faithful_value(&dq, 0, "VecDeque<u32>");
    schema_faithful_value(&std::time::Duration::from_secs(b as u64), 0, "Duration");
}

/// C12 at an OLDER version: EVerMid { A, #[savefile_versions = "2.."] B(u32), C(u16) } written at version 1
/// (variants A and C exist): the version-1 schema must describe those bytes.
pub fn schema_evermid_old<S: Src>(s: &mut S) {
    use crate::family_gen::EVerMid;
    let v = if s.bool() { EVerMid::A } else { EVerMid::C(s.u16()) };
    schema_faithful_value(&v, 1, "EVerMid @ version 1");
}

/// C12 on three library types whose hand-written schemas are suspected unfaithful (one harness each so that a
/// finding is keyed to one type).
pub fn schema_result<S: Src>(s: &mut S) {
    let v: Result<u8, u16> = if s.bool() { Ok(s.u8()) } else { Err(s.u16()) };
    schema_faithful_value(&v, 0, "Result<u8,u16>");
}
pub fn schema_hashmap_guard<S: Src>(s: &mut S) {
    let mut m: std::collections::HashMap<u32, Vec<u32>> = std::collections::HashMap::new();
    if s.bool() { m.insert(s.u32(), vec![1, 2]); }
    schema_faithful_value(&m, 0, "HashMap<u32,Vec<u32>>");
}
pub fn schema_socketaddr<S: Src>(s: &mut S) {
    let a = std::net::SocketAddr::new(std::net::IpAddr::V4(std::net::Ipv4Addr::new(s.u8(), 0, 0, 1)), s.u16());
    schema_faithful_value(&a, 0, "SocketAddr");
}
