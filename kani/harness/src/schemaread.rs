//! C12: an independent generic reader driven ONLY by a `Schema` value, written from the documentation of the
//! Schema node kinds. It walks serialized data and returns the end position, or None if the data does not
//! conform to the schema (wrong tag, unknown discriminant, running out of input).
use crate::family::Fam;
use crate::src::Src;
use savefile::prelude::*;
use savefile::{Schema, SchemaPrimitive, Serializer};

fn le_u64(b: &[u8], pos: usize) -> Option<u64> {
    if pos + 8 > b.len() { return None; }
    let mut a = [0u8; 8];
    let mut i = 0;
    while i < 8 { a[i] = b[pos + i]; i += 1; }
    Some(u64::from_le_bytes(a))
}

fn prim_width(p: &SchemaPrimitive) -> Option<usize> {
    Some(match p {
        SchemaPrimitive::schema_i8 | SchemaPrimitive::schema_u8 | SchemaPrimitive::schema_bool => 1,
        SchemaPrimitive::schema_i16 | SchemaPrimitive::schema_u16 => 2,
        SchemaPrimitive::schema_i32 | SchemaPrimitive::schema_u32 | SchemaPrimitive::schema_f32
        | SchemaPrimitive::schema_canary1 | SchemaPrimitive::schema_char => 4,
        SchemaPrimitive::schema_i64 | SchemaPrimitive::schema_u64 | SchemaPrimitive::schema_f64 => 8,
        SchemaPrimitive::schema_i128 | SchemaPrimitive::schema_u128 => 16,
        SchemaPrimitive::schema_string(_) => return None,
    })
}

/// Statistics recovered by the walk, compared with the value's own structure.
#[derive(Default, Clone, Copy, PartialEq, Eq, Debug)]
pub struct Walk { pub leaves: u32, pub structs: u32, pub enums: u32, pub last_discriminant: u32 }

pub fn walk(schema: &Schema, b: &[u8], pos: usize, w: &mut Walk, depth: u32) -> Option<usize> {
    if depth > 6 { return None; }
    match schema {
        Schema::Struct(s) => {
            w.structs += 1;
            let mut p = pos;
            for f in s.fields.iter() { p = walk(&f.value, b, p, w, depth + 1)?; }
            Some(p)
        }
        Schema::Enum(e) => {
            w.enums += 1;
            let n = e.discriminant_size as usize;
            if n != 1 && n != 2 && n != 4 { return None; }
            if pos + n > b.len() { return None; }
            let mut d: u32 = 0;
            let mut i = 0;
            while i < n { d |= (b[pos + i] as u32) << (8 * i); i += 1; }
            w.last_discriminant = d;
            let mut p = pos + n;
            // the variant whose discriminant is stored
            let mut found = false;
            for v in e.variants.iter() {
                if v.discriminant as u32 == (d & 0xff) && !found && (d <= 0xff) {
                    found = true;
                    for f in v.fields.iter() { p = walk(&f.value, b, p, w, depth + 1)?; }
                }
            }
            if !found { return None; }
            Some(p)
        }
        Schema::Primitive(SchemaPrimitive::schema_string(_)) => {
            w.leaves += 1;
            let n = le_u64(b, pos)? as usize;
            if n > b.len() || pos + 8 + n > b.len() { return None; }
            Some(pos + 8 + n)
        }
        Schema::Primitive(p) => {
            w.leaves += 1;
            let n = prim_width(p)?;
            if pos + n > b.len() { return None; }
            if let SchemaPrimitive::schema_bool = p { if b[pos] > 1 { return None; } }
            Some(pos + n)
        }
        Schema::Vector(item, _) => {
            let n = le_u64(b, pos)?;
            if n > 4 { return None; }
            let mut p = pos + 8;
            let mut i = 0;
            while i < n { p = walk(item, b, p, w, depth + 1)?; i += 1; }
            Some(p)
        }
        Schema::Array(a) => {
            if a.count > 8 { return None; }
            let mut p = pos;
            let mut i = 0;
            while i < a.count { p = walk(&a.item_type, b, p, w, depth + 1)?; i += 1; }
            Some(p)
        }
        Schema::SchemaOption(inner) => {
            if pos + 1 > b.len() { return None; }
            match b[pos] { 0 => Some(pos + 1), 1 => walk(inner, b, pos + 1, w, depth + 1), _ => None }
        }
        Schema::ZeroSize => Some(pos),
        Schema::Boxed(inner) => walk(inner, b, pos, w, depth + 1),
        _ => None,
    }
}

fn has_recursion(schema: &Schema, depth: u32) -> bool {
    if depth > 6 { return true; }
    match schema {
        Schema::Recursion(_) => true,
        Schema::Struct(s) => { let mut r = false; for f in s.fields.iter() { r = r || has_recursion(&f.value, depth + 1); } r }
        Schema::Enum(e) => { let mut r = false; for v in e.variants.iter() { for f in v.fields.iter() { r = r || has_recursion(&f.value, depth + 1); } } r }
        Schema::Vector(i, _) | Schema::SchemaOption(i) | Schema::Boxed(i) => has_recursion(i, depth + 1),
        Schema::Array(a) => has_recursion(&a.item_type, depth + 1),
        _ => false,
    }
}

/// C12: the schema of T at its version describes the bytes written for every value: the schema-driven walk
/// consumes exactly the serialized data; non-recursive family types have no recursion markers.
pub fn schema_faithful<T: Fam, S: Src>(s: &mut S) {
    let v = T::sym(s);
    let schema = savefile::get_schema::<T>(T::VERSION);
    let mut buf: Vec<u8> = Vec::with_capacity(64);
    assert!(Serializer::bare_serialize(&mut buf, T::VERSION, &v).is_ok());
    let mut w = Walk::default();
    let end = walk(&schema, &buf, 0, &mut w, 0);
    assert!(end == Some(buf.len()), "C12: a reader driven only by the schema parses the data completely and without error");
    assert!(!has_recursion(&schema, 0), "C12: non-recursive types never yield recursion markers");
}
