//! Native-only BOUNDED harness bodies for the ABI layer end to end (C09, C10, C11): real derive-generated
//! interface traits in two versions, connected through the real negotiation (`AbiConnection::new_internal`,
//! `analyze_and_create`), the real trampolines and `abi_entry_light`.  Neither verifier reaches this code: the
//! connection set-up builds schemas and strings (CBMC diverges) and consists of closures, iterator adapters,
//! `extern "C"` callbacks and raw pointers (outside Verus' subset); `catch_unwind` is not modelled by Kani at all.
//! Small-scope enumeration over argument values; nothing here is counted as proved.
use crate::src::Src;
use savefile_abi::{AbiConnection, AbiExportable};
use std::cell::Cell;
use std::panic::{catch_unwind, AssertUnwindSafe};

thread_local! {
    static DROPS: Cell<u32> = Cell::new(0);
    static SEEN: Cell<(u32, u8, u8)> = Cell::new((0, 0, 0));
}

pub mod v0 {
    use savefile_derive::{savefile_abi_exportable, Savefile};
    #[derive(Savefile, Clone, Debug, PartialEq)]
    #[repr(C)]
    pub struct Reading {
        pub millis: u32,
        pub channel: u8,
    }
    #[derive(Savefile, Clone, Debug, PartialEq)]
    pub struct Rep {
        pub code: u16,
    }
    #[derive(Savefile, Clone, Debug, PartialEq)]
    pub struct Mid {
        pub value: u32,
    }
    #[savefile_abi_exportable(version = 0)]
    pub trait Sink {
        fn mid(&self, m: Mid) -> Rep;
        fn by_ref(&self, r: &Reading) -> u32;
        fn owned(&self, r: Reading) -> Rep;
        fn scalar(&self, x: &u32, y: u16) -> u32;
        fn with_cb(&self, cb: &dyn Fn(Reading) -> Rep, seed: Reading) -> Rep;
        fn boom(&self, x: u32) -> u32;
        fn make_adder(&self, k: u32) -> Box<dyn Fn(u32) -> u32>;
        fn take_boxed(&self, f: Box<dyn Fn(u32) -> u32>, x: u32) -> u32;
        fn only_old(&self, x: u8) -> u8;
    }
}
pub mod v1 {
    use savefile_derive::{savefile_abi_exportable, Savefile};
    #[derive(Savefile, Clone, Debug, PartialEq)]
    #[repr(C)]
    pub struct Reading {
        pub millis: u32,
        pub channel: u8,
        #[savefile_versions = "1.."]
        pub gain: u8,
    }
    // the field added in version 1 comes FIRST on the wire: data encoded in the wrong version's format shifts `code`
    #[derive(Savefile, Clone, Debug, PartialEq)]
    pub struct Rep {
        #[savefile_versions = "1.."]
        pub extra: u32,
        pub code: u16,
    }
    #[derive(Savefile, Clone, Debug, PartialEq)]
    pub struct Mid {
        #[savefile_versions = "1.."]
        pub first: u8,
        pub value: u32,
    }
    #[savefile_abi_exportable(version = 1)]
    pub trait Sink {
        fn mid(&self, m: Mid) -> Rep;
        fn by_ref(&self, r: &Reading) -> u32;
        fn owned(&self, r: Reading) -> Rep;
        fn scalar(&self, x: &u32, y: u16) -> u32;
        fn with_cb(&self, cb: &dyn Fn(Reading) -> Rep, seed: Reading) -> Rep;
        fn boom(&self, x: u32) -> u32;
        fn make_adder(&self, k: u32) -> Box<dyn Fn(u32) -> u32>;
        fn take_boxed(&self, f: Box<dyn Fn(u32) -> u32>, x: u32) -> u32;
        fn only_new(&self, x: u8) -> u8;
    }
}

pub struct Impl0;
pub struct Impl1;
impl Drop for Impl0 { fn drop(&mut self) { DROPS.with(|d| d.set(d.get() + 1)); } }
impl Drop for Impl1 { fn drop(&mut self) { DROPS.with(|d| d.set(d.get() + 1)); } }
struct Guard;
impl Drop for Guard { fn drop(&mut self) { DROPS.with(|d| d.set(d.get() + 100)); } }

fn mix(millis: u32, channel: u8, gain: u8) -> u32 { millis.wrapping_mul(31) ^ ((channel as u32) << 8) ^ ((gain as u32) << 20) }

impl v0::Sink for Impl0 {
    fn by_ref(&self, r: &v0::Reading) -> u32 { SEEN.with(|s| s.set((r.millis, r.channel, 0))); mix(r.millis, r.channel, 0) }
    fn owned(&self, r: v0::Reading) -> v0::Rep { SEEN.with(|s| s.set((r.millis, r.channel, 0))); v0::Rep { code: r.channel as u16 + 1 } }
    fn mid(&self, m: v0::Mid) -> v0::Rep { SEEN.with(|s| s.set((m.value, 0, 0))); v0::Rep { code: (m.value as u16).wrapping_add(3) } }
    fn scalar(&self, x: &u32, y: u16) -> u32 { x.wrapping_add(y as u32) }
    fn with_cb(&self, cb: &dyn Fn(v0::Reading) -> v0::Rep, seed: v0::Reading) -> v0::Rep {
        let r = cb(v0::Reading { millis: seed.millis.wrapping_add(1), channel: seed.channel });
        v0::Rep { code: r.code.wrapping_add(1) }
    }
    fn boom(&self, x: u32) -> u32 { if x == 3 { panic!("boom-msg-{}", x) } x + 1 }
    fn make_adder(&self, k: u32) -> Box<dyn Fn(u32) -> u32> { let g = Guard; Box::new(move |x| { let _ = &g; x.wrapping_add(k) }) }
    fn take_boxed(&self, f: Box<dyn Fn(u32) -> u32>, x: u32) -> u32 { f(x).wrapping_add(f(1)) }
    fn only_old(&self, x: u8) -> u8 { x }
}
impl v1::Sink for Impl1 {
    fn by_ref(&self, r: &v1::Reading) -> u32 { SEEN.with(|s| s.set((r.millis, r.channel, r.gain))); mix(r.millis, r.channel, r.gain) }
    fn owned(&self, r: v1::Reading) -> v1::Rep { SEEN.with(|s| s.set((r.millis, r.channel, r.gain))); v1::Rep { code: r.channel as u16 + 1, extra: r.gain as u32 + 100 } }
    fn mid(&self, m: v1::Mid) -> v1::Rep { SEEN.with(|s| s.set((m.value, m.first, 0))); v1::Rep { code: (m.value as u16).wrapping_add(3), extra: m.first as u32 + 0x0101_0000 } }
    fn scalar(&self, x: &u32, y: u16) -> u32 { x.wrapping_add(y as u32) }
    fn with_cb(&self, cb: &dyn Fn(v1::Reading) -> v1::Rep, seed: v1::Reading) -> v1::Rep {
        let r = cb(v1::Reading { millis: seed.millis.wrapping_add(1), channel: seed.channel, gain: seed.gain.wrapping_add(1) });
        v1::Rep { code: r.code.wrapping_add(1), extra: r.extra.wrapping_add(1) }
    }
    fn boom(&self, x: u32) -> u32 { if x == 3 { panic!("boom-msg-{}", x) } x + 1 }
    fn make_adder(&self, k: u32) -> Box<dyn Fn(u32) -> u32> { let g = Guard; Box::new(move |x| { let _ = &g; x.wrapping_add(k) }) }
    fn take_boxed(&self, f: Box<dyn Fn(u32) -> u32>, x: u32) -> u32 { f(x).wrapping_add(f(1)) }
    fn only_new(&self, x: u8) -> u8 { x }
}

fn conn_0_to(implv: u32) -> AbiConnection<dyn v0::Sink> {
    let r = if implv == 0 {
        unsafe { AbiConnection::<dyn v0::Sink>::from_boxed_trait_for_test(<dyn v0::Sink as AbiExportable>::ABI_ENTRY, Box::new(Impl0) as Box<dyn v0::Sink>) }
    } else {
        unsafe { AbiConnection::<dyn v0::Sink>::from_boxed_trait_for_test(<dyn v1::Sink as AbiExportable>::ABI_ENTRY, Box::new(Impl1) as Box<dyn v1::Sink>) }
    };
    match r { Ok(c) => c, Err(e) => panic!("C10: peers of different interface versions must connect: {:?}", e) }
}
fn conn_1_to(implv: u32) -> AbiConnection<dyn v1::Sink> {
    let r = if implv == 0 {
        unsafe { AbiConnection::<dyn v1::Sink>::from_boxed_trait_for_test(<dyn v0::Sink as AbiExportable>::ABI_ENTRY, Box::new(Impl0) as Box<dyn v0::Sink>) }
    } else {
        unsafe { AbiConnection::<dyn v1::Sink>::from_boxed_trait_for_test(<dyn v1::Sink as AbiExportable>::ABI_ENTRY, Box::new(Impl1) as Box<dyn v1::Sink>) }
    };
    match r { Ok(c) => c, Err(e) => panic!("C10: peers of different interface versions must connect: {:?}", e) }
}

#[repr(C, align(4))]
struct Backing([u8; 8]);

/// C09 + C10 + C11 for the four (caller version, implementation version) combinations, over small-scope values.
pub fn abi_pairs<S: Src>(s: &mut S) {
    use v0::Sink as S0;
    use v1::Sink as S1;
    let cv = s.below(2) as u32;
    let dv = s.below(2) as u32;
    let ev = cv.min(dv);
    let millis = s.u32();
    let channel = s.u8();
    let gain = s.u8();
    let method = s.below(8);
    DROPS.with(|d| d.set(0));
    SEEN.with(|x| x.set((9, 9, 9)));
    // what the implementation must observe: retained fields unchanged; `gain` is known to the implementation only at
    // version 1 and is transmitted only if both sides speak version 1, otherwise it takes its default (0)
    let seen_gain = if ev >= 1 { gain } else { 0 };
    if cv == 0 {
        let conn = conn_0_to(dv);
        assert!(conn.template.effective_version == ev, "C10: the lower of the two versions is negotiated");
        match method {
            0 => {
                // caller-side value whose padding bytes are 0xAA: a by-reference hand-over to a peer with a different
                // struct would make the peer read the padding
                let mut backing = Backing([0xAA; 8]);
                let reading: &v0::Reading = unsafe {
                    let base = backing.0.as_mut_ptr();
                    (base as *mut u32).write(millis);
                    base.add(4).write(channel);
                    &*(base as *const v0::Reading)
                };
                let got = conn.by_ref(reading);
                assert!(SEEN.with(|x| x.get()) == (millis, channel, 0), "C09/C11: the implementation observes the argument value (absent field = default)");
                assert!(got == mix(millis, channel, 0), "C09: the caller receives the returned value");
                if dv != 0 { assert!(!conn.get_arg_passable_by_ref("by_ref", 0), "C11: by reference only between identical layouts (the implementation's struct has an extra field)"); }
            }
            1 => {
                let rep = conn.owned(v0::Reading { millis, channel });
                assert!(SEEN.with(|x| x.get()) == (millis, channel, 0), "C10: retained fields unchanged, unknown fields defaulted");
                assert!(rep == v0::Rep { code: channel as u16 + 1 }, "C10: return value transmitted in the negotiated version's format");
            }
            2 => {
                assert!(conn.scalar(&millis, channel as u16) == millis.wrapping_add(channel as u32), "C09: plain arguments and return value");
            }
            3 => {
                let rep = conn.with_cb(&|r: v0::Reading| v0::Rep { code: (r.millis as u16).wrapping_add(r.channel as u16) }, v0::Reading { millis, channel });
                assert!(rep.code == (millis.wrapping_add(1) as u16).wrapping_add(channel as u16).wrapping_add(1), "C09: closures passed across stay callable with the same behaviour");
            }
            4 => {
                let r = catch_unwind(AssertUnwindSafe(|| conn.boom(3)));
                match r {
                    Ok(_) => assert!(false, "C09: a panic in the implementation reaches the caller as a panic"),
                    Err(e) => {
                        let msg = e.downcast_ref::<String>().cloned().or(e.downcast_ref::<&str>().map(|x| x.to_string())).unwrap_or_default();
                        assert!(msg.contains("boom-msg-3"), "C09: the panic carries the implementation's message (got {:?})", msg);
                    }
                }
                assert!(conn.boom(millis % 3) == millis % 3 + 1, "C09: the connection stays usable after a panic");
            }
            5 => {
                let f = conn.make_adder(millis);
                assert!(f(channel as u32) == millis.wrapping_add(channel as u32), "C09: boxed closures returned across stay callable");
                assert!(DROPS.with(|d| d.get()) == 0);
                drop(f);
                assert!(DROPS.with(|d| d.get()) == 100, "C09: a returned boxed closure (and what it owns) is dropped exactly once");
                let g = Guard;
                let got = conn.take_boxed(Box::new(move |x| { let _ = &g; x.wrapping_mul(3) }), millis);
                assert!(got == millis.wrapping_mul(3).wrapping_add(3), "C09: boxed closures passed in stay callable");
                assert!(DROPS.with(|d| d.get()) == 200, "C09: an owned boxed closure argument is dropped exactly once");
            }
            6 => {
                let rep = conn.mid(v0::Mid { value: millis });
                assert!(SEEN.with(|x| x.get()) == (millis, 0, 0), "C10: the implementation sees the retained field unchanged and the field the caller lacks defaulted");
                assert!(rep == v0::Rep { code: (millis as u16).wrapping_add(3) }, "C10: the return value is transmitted in the negotiated (version 0) format");
            }
            _ => {
                if dv == 0 { assert!(conn.only_old(channel) == channel); }
                else {
                    let r = catch_unwind(AssertUnwindSafe(|| conn.only_old(channel)));
                    assert!(r.is_err(), "C10: calling a method the implementation lacks fails at call time with a panic");
                    assert!(conn.scalar(&1, 2) == 3, "C10: the connection stays usable");
                }
            }
        }
        let before = DROPS.with(|d| d.get());
        drop(conn);
        assert!(DROPS.with(|d| d.get()) == before + 1, "C09: the owned implementation object is dropped exactly once");
    } else {
        let conn = conn_1_to(dv);
        assert!(conn.template.effective_version == ev, "C10: the lower of the two versions is negotiated");
        match method {
            0 => {
                let reading = v1::Reading { millis, channel, gain };
                let got = conn.by_ref(&reading);
                assert!(SEEN.with(|x| x.get()) == (millis, channel, seen_gain), "C09/C11: the implementation observes the argument value");
                assert!(got == mix(millis, channel, seen_gain), "C09: the caller receives the returned value");
                if dv != 1 { assert!(!conn.get_arg_passable_by_ref("by_ref", 0), "C11: by reference only between identical layouts (the caller's struct has an extra field)"); }
            }
            1 => {
                let rep = conn.owned(v1::Reading { millis, channel, gain });
                assert!(SEEN.with(|x| x.get()) == (millis, channel, seen_gain), "C10: retained fields unchanged, fields the other side lacks defaulted");
                let extra = if dv >= 1 { gain as u32 + 100 } else { 0 };
                assert!(rep == v1::Rep { code: channel as u16 + 1, extra }, "C10: return value transmitted in the negotiated version's format (fields the sender lacks take their default)");
            }
            2 => {
                assert!(conn.scalar(&millis, channel as u16) == millis.wrapping_add(channel as u32), "C09: plain arguments and return value");
            }
            3 => {
                let rep = conn.with_cb(
                    &|r: v1::Reading| v1::Rep { code: (r.millis as u16).wrapping_add(r.channel as u16), extra: r.gain as u32 + 7 },
                    v1::Reading { millis, channel, gain },
                );
                let code = (millis.wrapping_add(1) as u16).wrapping_add(channel as u16).wrapping_add(1);
                // both sides at version 1: everything that flows through the closure travels in version-1 format
                let extra = if dv >= 1 { (gain.wrapping_add(1) as u32 + 7).wrapping_add(1) } else { 0 };
                assert!(rep.code == code, "C09: closures passed across stay callable with the same behaviour");
                assert!(rep.extra == extra, "C09/C10: closure arguments and return values are transmitted in the negotiated version's format");
            }
            4 => {
                let r = catch_unwind(AssertUnwindSafe(|| conn.boom(3)));
                match r {
                    Ok(_) => assert!(false, "C09: a panic in the implementation reaches the caller as a panic"),
                    Err(e) => {
                        let msg = e.downcast_ref::<String>().cloned().or(e.downcast_ref::<&str>().map(|x| x.to_string())).unwrap_or_default();
                        assert!(msg.contains("boom-msg-3"), "C09: the panic carries the implementation's message (got {:?})", msg);
                    }
                }
                assert!(conn.boom(millis % 3) == millis % 3 + 1, "C09: the connection stays usable after a panic");
            }
            5 => {
                let f = conn.make_adder(millis);
                assert!(f(channel as u32) == millis.wrapping_add(channel as u32), "C09: boxed closures returned across stay callable");
                drop(f);
                assert!(DROPS.with(|d| d.get()) == 100, "C09: a returned boxed closure (and what it owns) is dropped exactly once");
                let g = Guard;
                let got = conn.take_boxed(Box::new(move |x| { let _ = &g; x.wrapping_mul(3) }), millis);
                assert!(got == millis.wrapping_mul(3).wrapping_add(3), "C09: boxed closures passed in stay callable");
                assert!(DROPS.with(|d| d.get()) == 200, "C09: an owned boxed closure argument is dropped exactly once");
            }
            6 => {
                let rep = conn.mid(v1::Mid { first: gain, value: millis });
                assert!(SEEN.with(|x| x.get()) == (millis, seen_gain, 0), "C10: arguments are transmitted in the negotiated version's format (retained fields unchanged)");
                let extra = if dv >= 1 { seen_gain as u32 + 0x0101_0000 } else { 0 };
                assert!(rep == v1::Rep { code: (millis as u16).wrapping_add(3), extra }, "C10: the return value is transmitted in the negotiated version's format");
            }
            _ => {
                if dv == 1 { assert!(conn.only_new(channel) == channel); }
                else {
                    let r = catch_unwind(AssertUnwindSafe(|| conn.only_new(channel)));
                    assert!(r.is_err(), "C10: calling a method the implementation lacks fails at call time with a panic");
                    assert!(conn.scalar(&1, 2) == 3, "C10: the connection stays usable");
                }
            }
        }
        let before = DROPS.with(|d| d.get());
        drop(conn);
        assert!(DROPS.with(|d| d.get()) == before + 1, "C09: the owned implementation object is dropped exactly once");
    }
}

// ---- a method with 40 reference arguments (the by-reference mask has one bit per argument) ----------------------
pub mod wide {
    use savefile_derive::savefile_abi_exportable;
    #[savefile_abi_exportable(version = 0)]
    pub trait Wide {
        fn many(
            &self,
            a0: &u8, a1: &u8, a2: &u8, a3: &u8, a4: &u8, a5: &u8, a6: &u8, a7: &u8, a8: &u8, a9: &u8,
            a10: &u8, a11: &u8, a12: &u8, a13: &u8, a14: &u8, a15: &u8, a16: &u8, a17: &u8, a18: &u8, a19: &u8,
            a20: &u8, a21: &u8, a22: &u8, a23: &u8, a24: &u8, a25: &u8, a26: &u8, a27: &u8, a28: &u8, a29: &u8,
            a30: &u8, a31: &u8, a32: String, a33: &u8, a34: String, a35: &u8, a36: &u8, a37: &u8, a38: &u8, a39: &u8,
        ) -> u64;
    }
}
pub struct WideImpl;
impl wide::Wide for WideImpl {
    fn many(
        &self,
        a0: &u8, a1: &u8, a2: &u8, a3: &u8, a4: &u8, a5: &u8, a6: &u8, a7: &u8, a8: &u8, a9: &u8,
        a10: &u8, a11: &u8, a12: &u8, a13: &u8, a14: &u8, a15: &u8, a16: &u8, a17: &u8, a18: &u8, a19: &u8,
        a20: &u8, a21: &u8, a22: &u8, a23: &u8, a24: &u8, a25: &u8, a26: &u8, a27: &u8, a28: &u8, a29: &u8,
        a30: &u8, a31: &u8, a32: String, a33: &u8, a34: String, a35: &u8, a36: &u8, a37: &u8, a38: &u8, a39: &u8,
    ) -> u64 {
        let refs = [a0, a1, a2, a3, a4, a5, a6, a7, a8, a9, a10, a11, a12, a13, a14, a15, a16, a17, a18, a19, a20, a21, a22, a23, a24, a25, a26, a27, a28, a29, a30, a31, a33, a35, a36, a37, a38, a39];
        let mut acc = 0u64;
        for (i, r) in refs.iter().enumerate() { acc = acc.wrapping_mul(3).wrapping_add(**r as u64 + i as u64); }
        acc.wrapping_add(a32.len() as u64 * 1000).wrapping_add(a34.len() as u64 * 100000)
    }
}

/// C09/C11: a 40-argument method; the mask has no bit beyond the argument count and the call is transparent.
pub fn abi_wide<S: Src>(s: &mut S) {
    use wide::Wide;
    let conn = match AbiConnection::<dyn wide::Wide>::from_boxed_trait(Box::new(WideImpl) as Box<dyn wide::Wide>) {
        Ok(c) => c,
        Err(e) => panic!("C09: connecting a 40-argument interface must work: {:?}", e),
    };
    let mask = conn.template.methods[0].compatibility_mask;
    assert!(mask >> 40 == 0, "C11: no by-reference bit beyond the argument count");
    // (bits of owned arguments may be set: the generated caller code consults the mask only for reference arguments)
    let b = s.u8();
    let k = s.below(40);
    let l32 = s.below(3);
    let v: Vec<u8> = (0..40).map(|i| if i == k { b } else { i as u8 }).collect();
    let direct = WideImpl.many(&v[0], &v[1], &v[2], &v[3], &v[4], &v[5], &v[6], &v[7], &v[8], &v[9], &v[10], &v[11], &v[12], &v[13], &v[14], &v[15], &v[16], &v[17], &v[18], &v[19],
        &v[20], &v[21], &v[22], &v[23], &v[24], &v[25], &v[26], &v[27], &v[28], &v[29], &v[30], &v[31], "x".repeat(l32), &v[33], "yy".to_string(), &v[35], &v[36], &v[37], &v[38], &v[39]);
    let via = conn.many(&v[0], &v[1], &v[2], &v[3], &v[4], &v[5], &v[6], &v[7], &v[8], &v[9], &v[10], &v[11], &v[12], &v[13], &v[14], &v[15], &v[16], &v[17], &v[18], &v[19],
        &v[20], &v[21], &v[22], &v[23], &v[24], &v[25], &v[26], &v[27], &v[28], &v[29], &v[30], &v[31], "x".repeat(l32), &v[33], "yy".to_string(), &v[35], &v[36], &v[37], &v[38], &v[39]);
    assert!(via == direct, "C09: same effect as calling the implementation directly");
}

// ---- incompatible signature changes must be rejected when the connection is created ------------------------------
pub mod bad {
    use savefile_derive::savefile_abi_exportable;
    #[savefile_abi_exportable(version = 0)]
    pub trait ArgCount { fn f(&self, a: u32) -> u32; }
    #[savefile_abi_exportable(version = 0)]
    pub trait ArgCount2 { fn f(&self, a: u32, b: u32) -> u32; }
    #[savefile_abi_exportable(version = 0)]
    pub trait ArgType { fn f(&self, a: u16) -> u32; }
    #[savefile_abi_exportable(version = 0)]
    pub trait RetType { fn f(&self, a: u32) -> u64; }
}
pub struct BadImpl;
impl bad::ArgCount for BadImpl { fn f(&self, a: u32) -> u32 { a } }
impl bad::ArgCount2 for BadImpl { fn f(&self, a: u32, _b: u32) -> u32 { a } }
impl bad::ArgType for BadImpl { fn f(&self, a: u16) -> u32 { a as u32 } }
impl bad::RetType for BadImpl { fn f(&self, a: u32) -> u64 { a as u64 } }

pub fn abi_incompatible<S: Src>(s: &mut S) {
    let ok = match s.below(4) {
        0 => unsafe { AbiConnection::<dyn bad::ArgCount>::from_boxed_trait_for_test(<dyn bad::ArgCount2 as AbiExportable>::ABI_ENTRY, Box::new(BadImpl) as Box<dyn bad::ArgCount2>) }.is_ok(),
        1 => unsafe { AbiConnection::<dyn bad::ArgCount>::from_boxed_trait_for_test(<dyn bad::ArgType as AbiExportable>::ABI_ENTRY, Box::new(BadImpl) as Box<dyn bad::ArgType>) }.is_ok(),
        2 => unsafe { AbiConnection::<dyn bad::ArgCount>::from_boxed_trait_for_test(<dyn bad::RetType as AbiExportable>::ABI_ENTRY, Box::new(BadImpl) as Box<dyn bad::RetType>) }.is_ok(),
        _ => !unsafe { AbiConnection::<dyn bad::ArgCount>::from_boxed_trait_for_test(<dyn bad::ArgCount as AbiExportable>::ABI_ENTRY, Box::new(BadImpl) as Box<dyn bad::ArgCount>) }.is_ok(),
    };
    assert!(!ok, "C10: incompatible signature changes are rejected when the connection is created (and the identical signature is accepted)");
}

// ---- C15: the compatibility ledger on a real directory ----------------------------------------------------------
// Editions of ONE interface (same trait name => same ledger file names), each in its own module.
macro_rules! ledger_edition {
    ($m:ident, $ver:literal, { $($payload:tt)* }, { $($methods:tt)* }) => {
        pub mod $m {
            use savefile_derive::{savefile_abi_exportable, Savefile};
            #[derive(Savefile)]
            pub struct Payload { $($payload)* }
            #[savefile_abi_exportable(version = $ver)]
            pub trait VerifLedger { $($methods)* }
        }
    };
}
ledger_edition!(led0, 0, { pub a: u32, }, { fn put(&self, p: Payload) -> u32; });
ledger_edition!(led1, 1, { pub a: u32, #[savefile_versions = "1.."] pub b: u32, }, { fn put(&self, p: Payload) -> u32; });
ledger_edition!(led1_newmethod, 1, { pub a: u32, #[savefile_versions = "1.."] pub b: u32, }, { fn put(&self, p: Payload) -> u32; fn extra(&self, x: u8) -> u8; });
ledger_edition!(led1_break_v1, 1, { pub a: u32, #[savefile_versions = "1.."] pub b: u64, }, { fn put(&self, p: Payload) -> u32; });
ledger_edition!(led1_argcount, 1, { pub a: u32, #[savefile_versions = "1.."] pub b: u32, }, { fn put(&self, p: Payload, q: u32) -> u32; });
ledger_edition!(led1_removed, 1, { pub a: u32, #[savefile_versions = "1.."] pub b: u32, }, { fn other(&self, x: u8) -> u8; });
ledger_edition!(led1_rettype, 1, { pub a: u32, #[savefile_versions = "1.."] pub b: u32, }, { fn put(&self, p: Payload) -> u64; });
ledger_edition!(led1_argtype, 1, { pub a: u64, #[savefile_versions = "1.."] pub b: u32, }, { fn put(&self, p: Payload) -> u32; });
pub mod led_future {
    use savefile_derive::savefile_abi_exportable;
    #[savefile_abi_exportable(version = 0)]
    pub trait VerifLedger {
        fn put(&self, x: u32) -> std::pin::Pin<Box<dyn std::future::Future<Output = u32>>>;
        fn cb(&self, f: &dyn Fn(u32) -> u32) -> u32;
    }
}

pub mod led_sync {
    use savefile_derive::savefile_abi_exportable;
    #[savefile_abi_exportable(version = 0)]
    pub trait VerifLedger: Sync { fn put(&self, x: u32) -> u32; }
}
pub mod led_send {
    use savefile_derive::savefile_abi_exportable;
    #[savefile_abi_exportable(version = 0)]
    pub trait VerifLedger: Send { fn put(&self, x: u32) -> u32; }
}
pub mod led_sendsync {
    use savefile_derive::savefile_abi_exportable;
    #[savefile_abi_exportable(version = 0)]
    pub trait VerifLedger: Send + Sync { fn put(&self, x: u32) -> u32; }
}
fn ledger_run<T: AbiExportable + ?Sized>(dir: &str) -> bool {
    match catch_unwind(AssertUnwindSafe(|| savefile_abi::verify_compatiblity::<T>(dir))) {
        Ok(r) => r.is_ok(),
        Err(_) => panic!("C15: the compatibility check panicked"),
    }
}

/// C15: sequences of runs of verify_compatiblity against one schema directory.
pub fn ledger_files<S: Src>(s: &mut S) {
    type Run = fn(&str) -> bool;
    let e0: Run = ledger_run::<dyn led0::VerifLedger>;
    let e1: Run = ledger_run::<dyn led1::VerifLedger>;
    let newm: Run = ledger_run::<dyn led1_newmethod::VerifLedger>;
    let brk1: Run = ledger_run::<dyn led1_break_v1::VerifLedger>;
    let argc: Run = ledger_run::<dyn led1_argcount::VerifLedger>;
    let remv: Run = ledger_run::<dyn led1_removed::VerifLedger>;
    let rett: Run = ledger_run::<dyn led1_rettype::VerifLedger>;
    let argt: Run = ledger_run::<dyn led1_argtype::VerifLedger>;
    let fut: Run = ledger_run::<dyn led_future::VerifLedger>;
    let lsync: Run = ledger_run::<dyn led_sync::VerifLedger>;
    let lsend: Run = ledger_run::<dyn led_send::VerifLedger>;
    let lboth: Run = ledger_run::<dyn led_sendsync::VerifLedger>;
    // (sequence of runs, expected outcome of each run)
    let scenarios: Vec<(&str, Vec<(Run, bool)>)> = vec![
        ("unchanged v0 interface, three runs", vec![(e0, true), (e0, true), (e0, true)]),
        ("unchanged v1 interface, three runs", vec![(e1, true), (e1, true), (e1, true)]),
        ("unchanged interface with a boxed-future return and a closure argument", vec![(fut, true), (fut, true), (fut, true)]),
        ("unchanged interface with a Sync bound", vec![(lsync, true), (lsync, true), (lsync, true)]),
        ("unchanged interface with a Send bound", vec![(lsend, true), (lsend, true), (lsend, true)]),
        ("unchanged interface with Send + Sync bounds", vec![(lboth, true), (lboth, true)]),
        ("compatible evolution v0 -> v1 (new versioned field), then unchanged", vec![(e0, true), (e1, true), (e1, true)]),
        ("compatible evolution, then a change that breaks the recorded version 1", vec![(e0, true), (e1, true), (brk1, false)]),
        ("a change that breaks only the newest recorded version", vec![(e1, true), (brk1, false)]),
        ("new method added", vec![(e1, true), (newm, true), (newm, true)]),
        ("argument count changed", vec![(e1, true), (argc, false)]),
        ("method removed", vec![(e1, true), (remv, false)]),
        ("return type changed", vec![(e1, true), (rett, false)]),
        ("argument type changed (breaks version 0 and 1)", vec![(e1, true), (argt, false)]),
        ("broken edition is still rejected on a later run (nothing was overwritten)", vec![(e1, true), (brk1, false), (brk1, false), (e1, true)]),
    ];
    let k = s.below(scenarios.len());
    let (what, runs) = &scenarios[k];
    let mut dir = std::env::temp_dir();
    dir.push(format!("verif_ledger_{}_{}", std::process::id(), k));
    let _ = std::fs::remove_dir_all(&dir);
    let d = dir.to_str().unwrap().to_string();
    for (i, (run, expect)) in runs.iter().enumerate() {
        let got = run(&d);
        if got != *expect {
            let _ = std::fs::remove_dir_all(&dir);
            panic!("C15: scenario '{}', run #{}: the compatibility check returned {} where {} is required", what, i + 1, if got { "Ok" } else { "Err" }, if *expect { "Ok" } else { "Err" });
        }
    }
    let _ = std::fs::remove_dir_all(&dir);
}

// ---- more argument kinds; the two editions declare the methods in a DIFFERENT ORDER (matching is by name) --------
pub mod w0 {
    use savefile_derive::savefile_abi_exportable;
    #[savefile_abi_exportable(version = 0)]
    pub trait More {
        fn text(&self, s: &str, big: String) -> String;
        fn slice(&self, xs: &[u32]) -> Vec<u32>;
        fn res(&self, x: u8) -> Result<u16, String>;
        fn opt(&self, x: Option<u8>) -> Option<u8>;
        fn fm(&self, f: &mut dyn FnMut(u32) -> u32) -> u32;
        fn nothing(&self);
    }
}
pub mod w1 {
    use savefile_derive::savefile_abi_exportable;
    #[savefile_abi_exportable(version = 1)]
    pub trait More {
        fn nothing(&self);
        fn fm(&self, f: &mut dyn FnMut(u32) -> u32) -> u32;
        fn added_in_v1(&self, x: u8) -> u8;
        fn opt(&self, x: Option<u8>) -> Option<u8>;
        fn res(&self, x: u8) -> Result<u16, String>;
        fn slice(&self, xs: &[u32]) -> Vec<u32>;
        fn text(&self, s: &str, big: String) -> String;
    }
}
pub struct MoreImpl;
fn m_text(s: &str, big: String) -> String { format!("{}|{}|{}", s.len(), big.len(), &big[..big.len().min(3)]) }
fn m_slice(xs: &[u32]) -> Vec<u32> { xs.iter().rev().map(|x| x.wrapping_add(1)).collect() }
fn m_res(x: u8) -> Result<u16, String> { if x % 2 == 0 { Ok(x as u16 * 3) } else { Err(format!("odd {}", x)) } }
fn m_opt(x: Option<u8>) -> Option<u8> { x.and_then(|v| if v == 255 { None } else { Some(v + 1) }) }
fn m_fm(f: &mut dyn FnMut(u32) -> u32) -> u32 { let a = f(1); let b = f(10); a.wrapping_mul(1000).wrapping_add(b) }
impl w0::More for MoreImpl {
    fn text(&self, s: &str, big: String) -> String { m_text(s, big) }
    fn slice(&self, xs: &[u32]) -> Vec<u32> { m_slice(xs) }
    fn res(&self, x: u8) -> Result<u16, String> { m_res(x) }
    fn opt(&self, x: Option<u8>) -> Option<u8> { m_opt(x) }
    fn fm(&self, f: &mut dyn FnMut(u32) -> u32) -> u32 { m_fm(f) }
    fn nothing(&self) {}
}
impl w1::More for MoreImpl {
    fn nothing(&self) {}
    fn fm(&self, f: &mut dyn FnMut(u32) -> u32) -> u32 { m_fm(f) }
    fn added_in_v1(&self, x: u8) -> u8 { x }
    fn opt(&self, x: Option<u8>) -> Option<u8> { m_opt(x) }
    fn res(&self, x: u8) -> Result<u16, String> { m_res(x) }
    fn slice(&self, xs: &[u32]) -> Vec<u32> { m_slice(xs) }
    fn text(&self, s: &str, big: String) -> String { m_text(s, big) }
}

/// C09 + C10: strings / slices (small and far beyond any inline argument buffer), Result / Option, FnMut with state,
/// a method without arguments or return value; caller and implementation declare the methods in different orders.
pub fn abi_more<S: Src>(s: &mut S) {
    use w0::More as _;
    use w1::More as _;
    let cv = s.below(2);
    let dv = s.below(2);
    let big_len = [0usize, 1, 63, 64, 65, 4000, 70_000][s.below(7)];
    let n = [0usize, 1, 17, 5000][s.below(4)];
    let x = s.u8();
    let big: String = "ab".repeat(big_len / 2 + 1)[..big_len].to_string();
    let xs: Vec<u32> = (0..n as u32).map(|i| i.wrapping_mul(2654435761)).collect();
    macro_rules! run {
        ($conn:expr) => {{
            let conn = $conn;
            assert!(conn.text("héj", big.clone()) == m_text("héj", big.clone()), "C09: &str and String arguments (String of {} bytes), String return", big_len);
            assert!(conn.slice(&xs) == m_slice(&xs), "C09: &[u32] argument of {} elements, Vec return", n);
            assert!(conn.res(x) == m_res(x), "C09: Result return value");
            assert!(conn.opt(Some(x)) == m_opt(Some(x)) && conn.opt(None) == None, "C09: Option argument and return");
            let mut calls = 0u32;
            let got = conn.fm(&mut |v| { calls += 1; v.wrapping_add(x as u32).wrapping_add(calls) });
            let mut calls2 = 0u32;
            let want = m_fm(&mut |v| { calls2 += 1; v.wrapping_add(x as u32).wrapping_add(calls2) });
            assert!(got == want && calls == 2, "C09: a FnMut passed across keeps its state between calls");
            conn.nothing();
        }};
    }
    let connect_err = "C10: peers declaring the same methods in a different order must connect";
    match (cv, dv) {
        (0, 0) => run!(unsafe { AbiConnection::<dyn w0::More>::from_boxed_trait_for_test(<dyn w0::More as AbiExportable>::ABI_ENTRY, Box::new(MoreImpl) as Box<dyn w0::More>) }.expect(connect_err)),
        (0, _) => run!(unsafe { AbiConnection::<dyn w0::More>::from_boxed_trait_for_test(<dyn w1::More as AbiExportable>::ABI_ENTRY, Box::new(MoreImpl) as Box<dyn w1::More>) }.expect(connect_err)),
        (_, 0) => run!(unsafe { AbiConnection::<dyn w1::More>::from_boxed_trait_for_test(<dyn w0::More as AbiExportable>::ABI_ENTRY, Box::new(MoreImpl) as Box<dyn w0::More>) }.expect(connect_err)),
        _ => run!(unsafe { AbiConnection::<dyn w1::More>::from_boxed_trait_for_test(<dyn w1::More as AbiExportable>::ABI_ENTRY, Box::new(MoreImpl) as Box<dyn w1::More>) }.expect(connect_err)),
    }
}

// ---- nested trait objects across versions; ownership when the implementation panics ------------------------------
pub mod n0 {
    use savefile_derive::{savefile_abi_exportable, Savefile};
    #[derive(Savefile, Clone, Debug, PartialEq)]
    pub struct Job { pub id: u32 }
    #[savefile_abi_exportable(version = 0)]
    pub trait Listener { fn done(&self, x: u32) -> u32; }
    #[savefile_abi_exportable(version = 0)]
    pub trait Worker { fn submit(&self, j: Job) -> u32; }
    #[savefile_abi_exportable(version = 0)]
    pub trait Factory {
        fn notify(&self, l: Box<dyn Listener>) -> u32;
        fn make(&self) -> Box<dyn Worker>;
        fn eat_then_panic(&self, f: Box<dyn Fn(u32) -> u32>, x: u32) -> u32;
    }
}
pub mod n1 {
    use savefile_derive::{savefile_abi_exportable, Savefile};
    #[derive(Savefile, Clone, Debug, PartialEq)]
    pub struct Job { pub id: u32, #[savefile_versions = "1.."] pub priority: u8 }
    #[savefile_abi_exportable(version = 1)]
    pub trait Listener { fn done(&self, x: u32) -> u32; fn progress(&self, p: u8) -> u8; }
    #[savefile_abi_exportable(version = 1)]
    pub trait Worker { fn submit(&self, j: Job) -> u32; }
    #[savefile_abi_exportable(version = 1)]
    pub trait Factory {
        fn notify(&self, l: Box<dyn Listener>) -> u32;
        fn make(&self) -> Box<dyn Worker>;
        fn eat_then_panic(&self, f: Box<dyn Fn(u32) -> u32>, x: u32) -> u32;
    }
}
pub struct Fac0;
pub struct Fac1;
struct Wk0;
struct Wk1;
impl n0::Worker for Wk0 { fn submit(&self, j: n0::Job) -> u32 { j.id.wrapping_mul(10) } }
impl n1::Worker for Wk1 { fn submit(&self, j: n1::Job) -> u32 { j.id.wrapping_mul(10).wrapping_add(j.priority as u32) } }
impl n0::Factory for Fac0 {
    fn notify(&self, l: Box<dyn n0::Listener>) -> u32 { l.done(41) }
    fn make(&self) -> Box<dyn n0::Worker> { Box::new(Wk0) }
    fn eat_then_panic(&self, f: Box<dyn Fn(u32) -> u32>, x: u32) -> u32 { let y = f(x); if x == 3 { panic!("eat-panic-{}", y) } y }
}
impl n1::Factory for Fac1 {
    fn notify(&self, l: Box<dyn n1::Listener>) -> u32 { l.done(41) }
    fn make(&self) -> Box<dyn n1::Worker> { Box::new(Wk1) }
    fn eat_then_panic(&self, f: Box<dyn Fn(u32) -> u32>, x: u32) -> u32 { let y = f(x); if x == 3 { panic!("eat-panic-{}", y) } y }
}
struct L0(u32);
struct L1(u32);
impl n0::Listener for L0 { fn done(&self, x: u32) -> u32 { x.wrapping_add(self.0) } }
impl n1::Listener for L1 { fn done(&self, x: u32) -> u32 { x.wrapping_add(self.0) } fn progress(&self, p: u8) -> u8 { p } }

/// C09 + C10: boxed trait objects passed in and returned between differently-versioned peers (the nested interface has
/// a method on one side only / an argument type that gained a field); a boxed closure handed to an implementation that
/// then panics is still dropped exactly once.
pub fn abi_nested<S: Src>(s: &mut S) {
    use n0::{Factory as _, Worker as _};
    use n1::{Factory as _, Worker as _};
    let cv = s.below(2);
    let dv = s.below(2);
    let k = s.u32();
    let pr = s.u8();
    let what = s.below(3);
    // (older caller, newer implementation): the implementation's view of the CALLBACK interface has a method the
    // caller's listener objects lack; the library refuses such a connection when it is created (a callback the
    // receiver might call but the provider cannot serve). The property speaks about methods of the connected
    // interface itself, so nothing is demanded for this combination.
    if cv == 0 && dv == 1 { return; }
    DROPS.with(|d| d.set(0));
    let msg = "C10: peers whose nested interfaces differ compatibly (a method on one side only, a versioned field) must connect";
    macro_rules! eat {
        ($conn:expr) => {{
            let conn = $conn;
            let g = Guard;
            let r = catch_unwind(AssertUnwindSafe(|| conn.eat_then_panic(Box::new(move |x| { let _ = &g; x.wrapping_add(1) }), 3)));
            assert!(r.is_err(), "C09: the implementation's panic reaches the caller");
            assert!(DROPS.with(|d| d.get()) == 100, "C09: a boxed closure handed to an implementation that panics is dropped exactly once (drop count {})", DROPS.with(|d| d.get()) / 100);
            let g2 = Guard;
            assert!(conn.eat_then_panic(Box::new(move |x| { let _ = &g2; x.wrapping_add(1) }), 7) == 8, "C09: the connection stays usable");
            assert!(DROPS.with(|d| d.get()) == 200);
        }};
    }
    if cv == 0 {
        let conn = if dv == 0 {
            unsafe { AbiConnection::<dyn n0::Factory>::from_boxed_trait_for_test(<dyn n0::Factory as AbiExportable>::ABI_ENTRY, Box::new(Fac0) as Box<dyn n0::Factory>) }
        } else {
            unsafe { AbiConnection::<dyn n0::Factory>::from_boxed_trait_for_test(<dyn n1::Factory as AbiExportable>::ABI_ENTRY, Box::new(Fac1) as Box<dyn n1::Factory>) }
        }.expect(msg);
        match what {
            0 => assert!(conn.notify(Box::new(L0(k))) == 41u32.wrapping_add(k), "C09/C10: a boxed trait object passed in stays callable (older caller)"),
            1 => { let w = conn.make(); assert!(w.submit(n0::Job { id: k }) == k.wrapping_mul(10), "C10: a returned trait object: retained field unchanged, the field the caller lacks defaulted"); }
            _ => eat!(conn),
        }
    } else {
        let conn = if dv == 0 {
            unsafe { AbiConnection::<dyn n1::Factory>::from_boxed_trait_for_test(<dyn n0::Factory as AbiExportable>::ABI_ENTRY, Box::new(Fac0) as Box<dyn n0::Factory>) }
        } else {
            unsafe { AbiConnection::<dyn n1::Factory>::from_boxed_trait_for_test(<dyn n1::Factory as AbiExportable>::ABI_ENTRY, Box::new(Fac1) as Box<dyn n1::Factory>) }
        }.expect(msg);
        match what {
            0 => assert!(conn.notify(Box::new(L1(k))) == 41u32.wrapping_add(k), "C09/C10: a boxed trait object whose interface gained a method stays callable from an older implementation"),
            1 => {
                let w = conn.make();
                let expect = if dv == 0 { k.wrapping_mul(10) } else { k.wrapping_mul(10).wrapping_add(pr as u32) };
                assert!(w.submit(n1::Job { id: k, priority: pr }) == expect, "C10: arguments of a returned trait object travel in the negotiated version's format");
            }
            _ => eat!(conn),
        }
    }
}

// ---- C11: concrete pairs of derived types that must NOT be judged layout compatible (the layout facts the derive
// macro and the hand-written WithSchema impls record in a schema must be the real ones) ---------------------------
pub mod lay {
    use savefile_derive::Savefile;
    #[derive(Savefile)] #[repr(C)] pub struct SamplesArc { pub data: std::sync::Arc<[u32]> }
    #[derive(Savefile)] #[repr(C)] pub struct SamplesBox { pub data: Box<[u32]> }
    #[derive(Savefile)] #[repr(C)] pub struct SamplesVec { pub data: Vec<u32> }
    #[derive(Savefile)] #[repr(C, u8)] pub enum CmdCaller { Move { distance: u32, speed: u32 }, Stop }
    #[derive(Savefile)] #[repr(C, u8)] pub enum CmdImpl {
        Move { distance: u32, #[savefile_versions = "0..0"] speed: savefile::AbiRemoved<u32>, #[savefile_versions = "1.."] duration: u32 },
        Stop,
    }
    #[derive(Savefile)] #[repr(C)] pub struct PairA { pub a: u8, pub b: u8, pub c: u16 }
    #[derive(Savefile)] pub struct PairB { pub a: u8, pub b: u8, pub c: u16 }
    #[derive(Savefile)] #[repr(C)] pub struct BoxedU64 { pub a: Box<u64> }
    #[derive(Savefile)] #[repr(C)] pub struct ArcU64 { pub a: std::sync::Arc<u64> }
    #[derive(Savefile)] #[repr(C)] pub struct PlainU64 { pub a: u64 }
    #[derive(Savefile)] #[repr(C)] pub struct Same1 { pub a: u32, pub b: u32 }
    #[derive(Savefile)] #[repr(C)] pub struct Same2 { pub a: u32, pub b: u32 }
}
pub fn layout_type_pairs<S: Src>(s: &mut S) {
    use savefile::get_schema;
    let v = s.below(2) as u32;
    let chk = |a: savefile::Schema, b: savefile::Schema, what: &str| {
        assert!(!a.layout_compatible(&b) && !b.layout_compatible(&a), "C11: {} must not be judged layout compatible", what);
    };
    match s.below(6) {
        0 => chk(get_schema::<lay::SamplesArc>(0), get_schema::<lay::SamplesBox>(0), "a struct holding Arc<[u32]> and one holding Box<[u32]> (the Arc's data pointer points at the reference counts)"),
        1 => chk(get_schema::<lay::SamplesArc>(0), get_schema::<lay::SamplesVec>(0), "a struct holding Arc<[u32]> and one holding Vec<u32>"),
        2 => chk(get_schema::<lay::SamplesBox>(0), get_schema::<lay::SamplesVec>(0), "a struct holding Box<[u32]> and one holding Vec<u32>"),
        3 => { let _ = v; chk(get_schema::<lay::CmdCaller>(0), get_schema::<lay::CmdImpl>(0), "an enum whose variant holds a live u32 and (at version 0) one whose variant holds an AbiRemoved placeholder at that position") }
        4 => {
            // same fields, but only one side has a guaranteed (repr(C)) field order: compatible only if the offsets really agree
            let (a, b) = (get_schema::<lay::PairA>(0), get_schema::<lay::PairB>(0));
            let off = |x: &lay::PairB| (&x.a as *const u8 as usize - x as *const lay::PairB as usize, &x.b as *const u8 as usize - x as *const lay::PairB as usize, &x.c as *const u16 as usize - x as *const lay::PairB as usize);
            let same_offsets = off(&lay::PairB { a: 0, b: 0, c: 0 }) == (0, 1, 2);
            if a.layout_compatible(&b) { assert!(same_offsets, "C11: structs whose field offsets differ must not be judged layout compatible"); }
        }
        _ => { let _ = get_schema::<lay::Same1>(0).layout_compatible(&get_schema::<lay::Same2>(0)); }
    }
}

/// C11: a struct holding a smart pointer to T versus a struct holding T inline (one harness, so that a finding is keyed to it)
pub fn layout_smart_pointers<S: Src>(s: &mut S) {
    use savefile::get_schema;
    let (a, b, what) = match s.below(2) {
        0 => (get_schema::<lay::BoxedU64>(0), get_schema::<lay::PlainU64>(0), "struct { a: Box<u64> } and struct { a: u64 }"),
        _ => (get_schema::<lay::ArcU64>(0), get_schema::<lay::PlainU64>(0), "struct { a: Arc<u64> } and struct { a: u64 }"),
    };
    assert!(!a.layout_compatible(&b) && !b.layout_compatible(&a), "C11: {} must not be judged layout compatible (one holds a pointer, the other the value)", what);
}
