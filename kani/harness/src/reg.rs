//! `harnesses!` declares every harness once; it expands to the Kani proofs (with the two
//! mandatory stubs and the vacuity cover) and to the registry used by the replay binary.
//! The metadata strings are read by /verif/tools/kani_run.py (regex on `h(` lines).

#[cfg(kani)]
pub fn fixed_keys() -> std::hash::RandomState {
    // Deserializer holds a HashMap; RandomState::new reaches getrandom which Kani cannot model.
    unsafe { core::mem::transmute([1u64, 2u64]) }
}
#[cfg(kani)]
pub fn nofmt(_args: core::fmt::Arguments<'_>) -> String {
    // error-path message text is not part of any property; format! makes CBMC diverge
    String::new()
}

macro_rules! harnesses {
    ( $modname:ident, $regfn:ident; $( h($name:ident, $unwind:literal, $body:path, $kind:literal, $props:literal, $fns:literal, $bound:literal); )* ) => {
        #[cfg(kani)]
        mod $modname {
            use super::*;
            $(
                #[kani::proof]
                #[kani::unwind($unwind)]
                #[kani::stub(std::hash::RandomState::new, crate::reg::fixed_keys)]
                #[kani::stub(alloc::fmt::format, crate::reg::nofmt)]
                #[allow(non_snake_case)]
                fn $name() {
                    let mut s = crate::src::KaniSrc;
                    $body(&mut s);
                    kani::cover!(true, "vacuity guard: end of harness reachable");
                }
            )*
        }
        pub fn $regfn() -> Vec<(&'static str, fn(&mut crate::src::ReplaySrc))> {
            vec![ $( (stringify!($name), (|s: &mut crate::src::ReplaySrc| $body(s)) as fn(&mut crate::src::ReplaySrc)), )* ]
        }
    };
}
