//! replay <harness> <hex,hex,...>   — run a harness body natively on concrete values.
//! exit 0: body completed (assertions held); exit 101: assertion failed / panic (reproduced);
//! exit 3: the values violate an assumption of the harness (replay diverged).
fn main() {
    let args: Vec<String> = std::env::args().collect();
    if args.len() < 2 {
        for (n, _) in vharness::registry() { println!("{}", n); }
        return;
    }
    let vals: Vec<Vec<u8>> = if args.len() > 2 && !args[2].is_empty() {
        args[2].split(',').map(|h| {
            (0..h.len() / 2).map(|i| u8::from_str_radix(&h[2 * i..2 * i + 2], 16).unwrap()).collect()
        }).collect()
    } else { Vec::new() };
    for (n, f) in vharness::registry() {
        if n == args[1] {
            let mut s = vharness::src::ReplaySrc::new(vals);
            f(&mut s);
            println!("REPLAY-COMPLETED: all assertions of {} held on these values", n);
            return;
        }
    }
    eprintln!("unknown harness {}", args[1]);
    std::process::exit(2);
}
