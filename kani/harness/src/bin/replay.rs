//! replay <harness> <hex,hex,...>   run a harness body natively on the concrete values of a counterexample.
//!    exit 0: body completed (assertions held); exit 101: assertion failed / panic (reproduced);
//!    exit 3: the values violate an assumption of the harness (replay diverged).
//! replay --enum <harness> [max]     small-scope enumeration of a native-only bounded harness (all combinations of
//!    small value domains); prints the number of cases; exit 101 on the first failing combination.
#[cfg(kani)]
fn main() {}
#[cfg(not(kani))]
use std::panic::{catch_unwind, AssertUnwindSafe};
#[cfg(not(kani))]
fn main() {
    let args: Vec<String> = std::env::args().collect();
    if args.len() < 2 {
        for (n, _) in vharness::registry() { println!("{}", n); }
        for (n, _) in vharness::native_registry() { println!("native:{}", n); }
        return;
    }
    if args[1] == "--case" {
        // replay --case <native harness> <d0,d1,...>: run exactly one choice vector of a native bounded harness
        let name = &args[2];
        let digits: Vec<usize> = if args.len() > 3 { args[3].split(',').filter(|x| !x.trim().is_empty()).map(|x| x.trim().parse().unwrap_or(0)).collect() } else { Vec::new() };
        for (n, f) in vharness::native_registry() {
            if n == name {
                let mut s = vharness::src::EnumSrc::new();
                s.radix = vec![usize::MAX; digits.len()];
                s.digits = digits.clone();
                let r = catch_unwind(AssertUnwindSafe(|| f(&mut s)));
                match r {
                    Ok(()) => { println!("CASE-COMPLETED harness={} choice_vector={:?}: all assertions held", name, digits); return; }
                    Err(e) => {
                        if e.downcast_ref::<vharness::src::Rejected>().is_some() { println!("CASE-REJECTED: the choice vector violates an assumption of the harness"); std::process::exit(3); }
                        let msg = e.downcast_ref::<&str>().map(|x| x.to_string()).or(e.downcast_ref::<String>().cloned()).unwrap_or_default();
                        println!("CASE-FAILED harness={} choice_vector={:?} message={}", name, digits, msg);
                        std::process::exit(101);
                    }
                }
            }
        }
        eprintln!("unknown native harness {}", name);
        std::process::exit(2);
    }
    if args[1] == "--enum" {
        let name = &args[2];
        let max: u64 = if args.len() > 3 { args[3].parse().unwrap_or(2_000_000) } else { 2_000_000 };
        for (n, f) in vharness::native_registry() {
            if n == name {
                std::panic::set_hook(Box::new(|_| {}));
                let mut s = vharness::src::EnumSrc::new();
                let (mut cases, mut rejected) = (0u64, 0u64);
                loop {
                    let r = catch_unwind(AssertUnwindSafe(|| f(&mut s)));
                    match r {
                        Ok(()) => { cases += 1; if cases <= 3 { println!("ENUM-SAMPLE harness={} choice_vector={:?}", name, s.digits); } }
                        Err(e) => {
                            if e.downcast_ref::<vharness::src::Rejected>().is_some() { rejected += 1; }
                            else {
                                let msg = e.downcast_ref::<&str>().map(|x| x.to_string()).or(e.downcast_ref::<String>().cloned()).unwrap_or_default();
                                println!("ENUM-FAILED harness={} case={} digits={:?} message={}", name, cases + rejected, s.digits, msg);
                                std::process::exit(101);
                            }
                        }
                    }
                    if cases + rejected >= max || !s.step() { break; }
                }
                println!("ENUM-COMPLETED harness={} cases={} rejected_by_assumption={} exhausted={}", name, cases, rejected, cases + rejected < max);
                return;
            }
        }
        eprintln!("unknown native harness {}", name);
        std::process::exit(2);
    }
    let vals: Vec<Vec<u8>> = if args.len() > 2 && !args[2].is_empty() {
        args[2].split(',').map(|h| {
            (0..h.len() / 2).map(|i| u8::from_str_radix(&h[2 * i..2 * i + 2], 16).unwrap()).collect()
        }).collect()
    } else { Vec::new() };
    for (n, f) in vharness::registry() {
        if n == args[1] {
            let mut s = vharness::src::ReplaySrc::new(vals);
            f(&mut s);
            println!("REPLAY-COMPLETED: all assertions of {} held on these values", n);
            return;
        }
    }
    eprintln!("unknown harness {}", args[1]);
    std::process::exit(2);
}
