harnesses! { proofs_misc, registry_misc;
    h(hdr_magic, 64, crate::containers::hdr_magic, "complete", "C05", "Deserializer::load_impl (magic check)", "");
    h(hdr_versions, 64, crate::containers::hdr_versions, "complete", "C05", "Deserializer::load_impl (library-format and data version gates, compression flag)", "");
    h(mal_vec_bool, 64, crate::malformed::mal_vec_bool, "complete", "C06", "<Vec<T> as Deserialize>::deserialize (bulk path, T = bool)", "");
    h(mal_vec_char, 64, crate::malformed::mal_vec_char, "complete", "C06", "<Vec<T> as Deserialize>::deserialize (bulk path, T = char)", "");
    h(mal_vec_u16_len, 64, crate::malformed::mal_vec_u16_len, "complete", "C06", "<Vec<T> as Deserialize>::deserialize (bulk path: length * size, allocation)", "");
    h(mal_systemtime, 64, crate::malformed::mal_systemtime, "complete", "C06", "<SystemTime as Deserialize>::deserialize; u128_duration_nanos", "");
    h(mal_duration, 64, crate::malformed::mal_duration, "complete", "C06", "<Duration as Deserialize>::deserialize", "");
    h(mal_arrayvec, 64, crate::malformed::mal_arrayvec, "complete", "C06", "<ArrayVec<V,C> as Deserialize>::deserialize (bulk path)", "");
    h(mal_array_bool, 64, crate::malformed::mal_array_bool, "complete", "C06", "<[T;N] as Deserialize>::deserialize (bulk path, T = bool)", "");
}
