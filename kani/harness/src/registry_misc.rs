harnesses! { proofs_misc, registry_misc;
    h(hdr_magic, 64, crate::containers::hdr_magic, "complete", "C05", "Deserializer::load_impl (magic check)", "");
    h(hdr_versions, 64, crate::containers::hdr_versions, "complete", "C05", "Deserializer::load_impl (library-format and data version gates, compression flag)", "");
    h(mal_vec_bool, 64, crate::malformed::mal_vec_bool, "complete", "C06", "<Vec<T> as Deserialize>::deserialize (bulk path, T = bool)", "");
    h(mal_vec_char, 64, crate::malformed::mal_vec_char, "complete", "C06", "<Vec<T> as Deserialize>::deserialize (bulk path, T = char)", "");
    h(mal_vec_u16_len, 64, crate::malformed::mal_vec_u16_len, "complete", "C06", "<Vec<T> as Deserialize>::deserialize (bulk path: length * size, allocation)", "");
    h(mal_systemtime, 64, crate::malformed::mal_systemtime, "complete", "C06", "<SystemTime as Deserialize>::deserialize; u128_duration_nanos", "");
    h(mal_duration, 64, crate::malformed::mal_duration, "complete", "C06", "<Duration as Deserialize>::deserialize", "");
    h(mal_arrayvec, 64, crate::malformed::mal_arrayvec, "complete", "C06", "<ArrayVec<V,C> as Deserialize>::deserialize (bulk path)", "");
    h(mal_array_bool, 64, crate::malformed::mal_array_bool, "complete", "C06", "<[T;N] as Deserialize>::deserialize (bulk path, T = bool)", "");
    h(abi_callee_add, 64, crate::abi::abi_callee_add, "complete", "C09,C10", "generated <dyn Calc as AbiExportable>::call (callee trampoline, method add); abi_entry_light DropInstance", "one exported trait (Calc), all argument values");
    h(abi_callee_pt, 64, crate::abi::abi_callee_pt, "complete", "C09,C10", "generated callee trampoline (method pt: versioned struct by value and returned)", "one exported trait (Calc), all values, versions 0..1");
    h(abi_callee_ref, 64, crate::abi::abi_callee_ref, "complete", "C09,C11", "generated callee trampoline (reference argument, by pointer or serialized)", "one exported trait (Calc)");
    h(abi_callee_unknown_method, 64, crate::abi::abi_callee_unknown_method, "complete", "C09", "generated callee trampoline (unknown method number)", "");
    h(abi_caller_add, 64, crate::abi::abi_caller_add, "complete", "C09,C10", "generated impl Calc for AbiConnection<dyn Calc> (caller trampoline, method add); parse_return_value_impl; Drop for AbiConnection", "one exported trait (Calc)");
    h(abi_caller_pt, 64, crate::abi::abi_caller_pt, "complete", "C09,C10", "generated caller trampoline (method pt); parse_return_value_impl", "one exported trait (Calc), versions 0..1");
    h(abi_caller_ref, 64, crate::abi::abi_caller_ref, "complete", "C09,C11", "generated caller trampoline (reference argument)", "one exported trait (Calc)");
}
