//! Bounded stand-in for the schema decision procedures (used in addition to / as a fallback for the Verus units
//! V-diff and V-layout when a refactoring takes the real function outside Verus' subset): small schema pairs
//! against an independent statement of wire equality / layout identity.
use crate::src::Src;
use savefile::prelude::*;
use savefile::{diff_schema, Field, Schema, SchemaEnum, SchemaPrimitive, Variant};

fn prim(k: bool) -> Schema { Schema::Primitive(if k { SchemaPrimitive::schema_u8 } else { SchemaPrimitive::schema_u32 }) }
fn fields(n: u8, k0: bool, k1: bool, off: usize) -> Vec<Field> {
    let mut v = Vec::with_capacity(2);
    if n >= 1 { v.push(unsafe { Field::unsafe_new(String::new(), Box::new(prim(k0)), Some(off)) }); }
    if n >= 2 { v.push(unsafe { Field::unsafe_new(String::new(), Box::new(prim(k1)), Some(off + 4)) }); }
    v
}
fn an_enum(n: u8, k0: bool, k1: bool, disc: u8, dsize: u8, off: usize) -> Schema {
    let variants = vec![Variant { name: String::new(), discriminant: disc, fields: fields(n, k0, k1, off) }];
    Schema::Enum(SchemaEnum::new_unsafe(String::new(), variants, dsize, true, Some(12), Some(4)))
}

/// C05/C13: diff_schema on pairs of one-variant enums: no difference iff same variant discriminant, same
/// discriminant width, same number of fields and pairwise same primitive kinds.
pub fn diff_pairs<S: Src>(s: &mut S) {
    let (na, nb) = (s.u8(), s.u8());
    s.assume(na <= 2 && nb <= 2);
    let (a0, a1, b0, b1) = (s.bool(), s.bool(), s.bool(), s.bool());
    let (da, db) = (s.u8(), s.u8());
    let (wa, wb) = (if s.bool() { 1u8 } else { 2u8 }, if s.bool() { 1u8 } else { 2u8 });
    let a = an_enum(na, a0, a1, da, wa, 4);
    let b = an_enum(nb, b0, b1, db, wb, 4);
    let d = diff_schema(&a, &b, String::new(), false);
    let same = na == nb && da == db && wa == wb && (na < 1 || a0 == b0) && (na < 2 || a1 == b1);
    let none = d.is_none();
    core::mem::forget(d);
    assert!(none == same, "C05: schema comparison reports no difference exactly for wire-equal schemas");
}

/// C11: layout_compatible on the same pairs (with symbolic offsets): true only for identical layouts.
pub fn layout_pairs<S: Src>(s: &mut S) {
    let (na, nb) = (s.u8(), s.u8());
    s.assume(na <= 2 && nb <= 2);
    let (a0, a1, b0, b1) = (s.bool(), s.bool(), s.bool(), s.bool());
    let (da, db) = (s.u8(), s.u8());
    let (wa, wb) = (if s.bool() { 1u8 } else { 2u8 }, if s.bool() { 1u8 } else { 2u8 });
    let (oa, ob) = (if s.bool() { 4usize } else { 8usize }, if s.bool() { 4usize } else { 8usize });
    let a = an_enum(na, a0, a1, da, wa, oa);
    let b = an_enum(nb, b0, b1, db, wb, ob);
    let same = na == nb && da == db && wa == wb && (na < 1 || (a0 == b0 && oa == ob)) && (na < 2 || a1 == b1);
    if a.layout_compatible(&b) { assert!(same, "C11: layout_compatible only for identical layouts"); }
}
