//! C15: AbiTraitDefinition::verify_backward_compatible against an independent statement of what a compatible
//! evolution is: every recorded (old) method still exists with the same async-ness, the same number of
//! arguments, wire-equal argument types and a wire-equal return type. New methods are allowed.
use crate::src::Src;
use savefile::prelude::*;
use savefile::{AbiMethod, AbiMethodArgument, AbiMethodInfo, AbiTraitDefinition, ReceiverType, Schema, SchemaPrimitive};

fn prim(k: u8) -> Schema {
    Schema::Primitive(match k { 0 => SchemaPrimitive::schema_u8, 1 => SchemaPrimitive::schema_u32, _ => SchemaPrimitive::schema_i64 })
}
fn method(name: &str, nargs: u8, k0: u8, k1: u8, ret: u8, is_async: bool) -> AbiMethod {
    let mut arguments = Vec::with_capacity(2);
    if nargs >= 1 { arguments.push(AbiMethodArgument { schema: prim(k0) }); }
    if nargs >= 2 { arguments.push(AbiMethodArgument { schema: prim(k1) }); }
    AbiMethod { name: name.to_string(), info: AbiMethodInfo { return_value: prim(ret), receiver: ReceiverType::Shared, arguments, async_trait_heuristic: is_async } }
}

/// old: one recorded method "m"; new: "m" present or not, possibly with changed signature, plus a new method "n".
pub fn ledger_compat<S: Src>(s: &mut S) {
    let (on, ok0, ok1, oret) = (s.u8(), s.u8(), s.u8(), s.u8());
    let (nn, nk0, nk1, nret) = (s.u8(), s.u8(), s.u8(), s.u8());
    s.assume(on <= 2 && nn <= 2 && ok0 <= 2 && ok1 <= 2 && oret <= 2 && nk0 <= 2 && nk1 <= 2 && nret <= 2);
    let oasync = s.bool();
    let nasync = s.bool();
    let present = s.bool();
    let old = AbiTraitDefinition { name: "T".to_string(), methods: vec![method("m", on, ok0, ok1, oret, oasync)], sync: false, send: false };
    let mut methods = Vec::with_capacity(2);
    methods.push(method("n", 0, 0, 0, 0, false));
    if present { methods.push(method("m", nn, nk0, nk1, nret, nasync)); }
    let new = AbiTraitDefinition { name: "T".to_string(), methods, sync: false, send: false };
    let r = new.verify_backward_compatible(0, &old, false);
    let args_same = on == nn && (on < 1 || ok0 == nk0) && (on < 2 || ok1 == nk1);
    let compatible = present && oasync == nasync && args_same && oret == nret;
    let got_ok = r.is_ok();
    core::mem::forget(r);
    assert!(got_ok == compatible, "C15: compatible evolution accepted, every breaking change of a recorded method rejected");
}
