//! Native-only BOUNDED harness for the schema section codec (C13), kept in addition to the Verus unit
//! V-schemacodec: (a) it still decides when a change moves a serializer/deserializer outside Verus' subset or makes
//! a proof run into the resource limit (both are "undecided", never an alarm), and (b) it covers the one clause
//! V-schemacodec does not prove: a schema section in the original format 0 decodes to the same schema minus
//! memory-layout annotations.  Oracle: an independent encoder for formats 0/1/2 written from the documentation.
use crate::src::Src;
use savefile::prelude::*;
use savefile::{Deserializer, Field, Schema, SchemaArray, SchemaEnum, SchemaPrimitive, SchemaStruct, Serializer, Variant, VecOrStringLayout};

type F = (String, D, Option<usize>);
#[derive(Clone, Debug)]
pub enum D {
    U8, U32, Canary, Str9(u8), Vector(Box<D>, u8), Opt(Box<D>), Arr(usize, Box<D>),
    Struct { size: Option<usize>, al: Option<usize>, fields: Vec<F> },
    Enum { variants: Vec<(String, u8, Vec<F>)>, dsize: u8, repr: bool, size: Option<usize>, al: Option<usize> },
    Custom, ZeroSize, Boxed(Box<D>), Slice(Box<D>), Str, Ref(Box<D>), Recursion(usize), StdIoError, UninitSlice, UtcTimestamp, Undefined,
}

fn layout(b: u8) -> VecOrStringLayout {
    match b {
        1 => VecOrStringLayout::DataCapacityLength, 2 => VecOrStringLayout::DataLengthCapacity, 3 => VecOrStringLayout::CapacityDataLength,
        4 => VecOrStringLayout::LengthDataCapacity, 5 => VecOrStringLayout::CapacityLengthData, 6 => VecOrStringLayout::LengthCapacityData,
        7 => VecOrStringLayout::LengthData, 8 => VecOrStringLayout::DataLength, _ => VecOrStringLayout::Unknown,
    }
}
fn build_fields(fs: &[F], strip: bool) -> Vec<Field> {
    fs.iter().map(|(n, d, o)| unsafe { Field::unsafe_new(n.clone(), Box::new(build(d, strip)), if strip { None } else { *o }) }).collect()
}
/// the real Schema value described by `d`; strip = what format 0 can represent (no memory-layout annotations)
pub fn build(d: &D, strip: bool) -> Schema {
    match d {
        D::U8 => Schema::Primitive(SchemaPrimitive::schema_u8),
        D::U32 => Schema::Primitive(SchemaPrimitive::schema_u32),
        D::Canary => Schema::Primitive(SchemaPrimitive::schema_canary1),
        D::Str9(l) => Schema::Primitive(SchemaPrimitive::schema_string(layout(if strip { 0 } else { *l }))),
        D::Vector(x, l) => Schema::Vector(Box::new(build(x, strip)), layout(if strip { 0 } else { *l })),
        D::Opt(x) => Schema::SchemaOption(Box::new(build(x, strip))),
        D::Arr(n, x) => Schema::Array(SchemaArray { item_type: Box::new(build(x, strip)), count: *n }),
        D::Struct { size, al, fields } => Schema::Struct(SchemaStruct::new_unsafe("S".to_string(), build_fields(fields, strip), if strip { None } else { *size }, if strip { None } else { *al })),
        D::Enum { variants, dsize, repr, size, al } => Schema::Enum(SchemaEnum::new_unsafe(
            "E".to_string(),
            variants.iter().map(|(n, disc, fs)| Variant { name: n.clone(), discriminant: *disc, fields: build_fields(fs, strip) }).collect(),
            if strip { 1 } else { *dsize }, if strip { false } else { *repr }, if strip { None } else { *size }, if strip { None } else { *al },
        )),
        D::Custom => Schema::Custom("cust".to_string()),
        D::ZeroSize => Schema::ZeroSize,
        D::Boxed(x) => Schema::Boxed(Box::new(build(x, strip))),
        D::Slice(x) => Schema::Slice(Box::new(build(x, strip))),
        D::Str => Schema::Str,
        D::Ref(x) => Schema::Reference(Box::new(build(x, strip))),
        D::Recursion(n) => Schema::Recursion(*n),
        D::StdIoError => Schema::StdIoError,
        D::UninitSlice => Schema::UninitSlice,
        D::UtcTimestamp => Schema::UtcTimestamp,
        D::Undefined => Schema::Undefined,
    }
}
fn e_str(s: &str, out: &mut Vec<u8>) { out.extend_from_slice(&(s.len() as u64).to_le_bytes()); out.extend_from_slice(s.as_bytes()); }
fn e_opt(o: &Option<usize>, out: &mut Vec<u8>) { match o { Some(x) => { out.push(1); out.extend_from_slice(&(*x as u64).to_le_bytes()); } None => out.push(0) } }
fn e_fields(fs: &[F], v: u32, out: &mut Vec<u8>) {
    for (n, d, o) in fs { e_str(n, out); enc(d, v, out); if v > 0 { e_opt(o, out); } }
}
/// the documented encoding of a schema section at library format version v (0, 1, 2)
pub fn enc(d: &D, v: u32, out: &mut Vec<u8>) {
    match d {
        D::U8 => out.extend_from_slice(&[3, 2]),
        D::U32 => out.extend_from_slice(&[3, 6]),
        D::Canary => out.extend_from_slice(&[3, 13]),
        D::Str9(l) => { out.extend_from_slice(&[3, 9]); if v > 0 { out.push(*l); } }
        D::Vector(x, l) => { out.push(4); enc(x, v, out); if v > 0 { out.push(*l); } }
        D::Opt(x) => { out.push(7); enc(x, v, out); }
        D::Arr(n, x) => { out.push(8); out.extend_from_slice(&(*n as u64).to_le_bytes()); enc(x, v, out); }
        D::Struct { size, al, fields } => {
            out.push(1); e_str("S", out); out.extend_from_slice(&(fields.len() as u64).to_le_bytes());
            if v > 0 { e_opt(size, out); e_opt(al, out); }
            e_fields(fields, v, out);
        }
        D::Enum { variants, dsize, repr, size, al } => {
            out.push(2); e_str("E", out); out.extend_from_slice(&(variants.len() as u64).to_le_bytes());
            for (n, disc, fs) in variants { e_str(n, out); out.push(*disc); out.extend_from_slice(&(fs.len() as u64).to_le_bytes()); e_fields(fs, v, out); }
            if v > 0 { out.push(*dsize); out.push(*repr as u8); e_opt(size, out); e_opt(al, out); }
        }
        D::Custom => { out.push(9); e_str("cust", out); }
        D::ZeroSize => out.push(6),
        D::Boxed(x) => { out.push(10); enc(x, v, out); }
        D::Slice(x) => { out.push(12); enc(x, v, out); }
        D::Str => out.push(13),
        D::Ref(x) => { out.push(14); enc(x, v, out); }
        D::Recursion(n) => { out.push(16); out.extend_from_slice(&(*n as u64).to_le_bytes()); }
        D::StdIoError => out.push(17),
        D::UninitSlice => out.push(19),
        D::UtcTimestamp => out.push(20),
        D::Undefined => out.push(5),
    }
}

fn leaf<S: Src>(s: &mut S) -> D {
    match s.below(8) { 0 => D::U8, 1 => D::U32, 2 => D::Str9([0u8, 1, 7][s.below(3)]), 3 => D::Str, 4 => D::ZeroSize, 5 => D::Custom, 6 => D::Recursion(s.below(2)), _ => D::UtcTimestamp }
}
fn leaf_fields<S: Src>(s: &mut S, max: usize) -> Vec<F> {
    let n = s.below(max + 1);
    (0..n).map(|i| (["a", "bb"][i % 2].to_string(), leaf(s), if s.bool() { Some(4 * i) } else { None })).collect()
}
fn opt_sz<S: Src>(s: &mut S) -> (Option<usize>, Option<usize>) { if s.bool() { (Some(8), Some(4)) } else { (None, None) } }
fn mid<S: Src>(s: &mut S) -> D {
    match s.below(12) {
        0 => leaf(s),
        1 => D::Vector(Box::new(leaf(s)), [0u8, 2, 8][s.below(3)]),
        2 => D::Opt(Box::new(leaf(s))),
        3 => D::Arr([0usize, 3][s.below(2)], Box::new(leaf(s))),
        4 => D::Boxed(Box::new(leaf(s))),
        5 => D::Slice(Box::new(leaf(s))),
        6 => D::Ref(Box::new(leaf(s))),
        7 => { let (size, al) = opt_sz(s); D::Struct { size, al, fields: leaf_fields(s, 2) } }
        8 => {
            let (size, al) = opt_sz(s);
            let nv = 1 + s.below(2);
            let variants = (0..nv).map(|i| (["V", "W"][i].to_string(), [1u8, 200][s.below(2)], if i == 0 { leaf_fields(s, 2) } else { Vec::new() })).collect();
            D::Enum { variants, dsize: [1u8, 4][s.below(2)], repr: s.bool(), size, al }
        }
        9 => D::StdIoError,
        10 => D::UninitSlice,
        _ => D::Undefined,
    }
}
fn top<S: Src>(s: &mut S) -> D {
    match s.below(7) {
        0 => mid(s),
        1 => D::Vector(Box::new(mid(s)), [0u8, 1][s.below(2)]),
        2 => D::Opt(Box::new(mid(s))),
        3 => D::Struct { size: Some(16), al: Some(8), fields: vec![("x".to_string(), mid(s), Some(0)), ("y".to_string(), leaf(s), None)] },
        4 => D::Enum { variants: vec![("A".to_string(), 0, vec![("f".to_string(), mid(s), Some(8))]), ("B".to_string(), 1, vec![])], dsize: 1, repr: true, size: Some(24), al: Some(8) },
        5 => D::Arr(2, Box::new(mid(s))),
        _ => D::Boxed(Box::new(mid(s))),
    }
}

/// C13: every small schema tree survives being written and read back at format versions 1 and 2 (and the bytes
/// written are the documented ones); a format-0 section decodes to the same schema minus layout annotations;
/// decoding consumes exactly the section.
pub fn schema_codec<S: Src>(s: &mut S) {
    let v = s.below(3) as u32;
    let d = top(s);
    let real = build(&d, false);
    let mut bytes = Vec::new();
    enc(&d, v, &mut bytes);
    bytes.extend_from_slice(&[0xEE, 0xEE]); // trailing payload that must not be touched
    if v > 0 {
        let mut out: Vec<u8> = Vec::new();
        let mut ser = Serializer::<Vec<u8>>::new_raw(&mut out, v);
        let r = real.serialize(&mut ser);
        assert!(r.is_ok(), "C13: writing a schema succeeds");
        assert!(out[..] == bytes[..bytes.len() - 2], "C13/C02: the schema section written at format {} is the documented encoding [{:?}]", v, d);
    }
    let mut rd: &[u8] = &bytes[..];
    let mut de = savefile::new_schema_deserializer(&mut rd, v as u16);
    let back = Schema::deserialize(&mut de);
    drop(de);
    match back {
        Ok(b) => {
            let expect = build(&d, v == 0);
            assert!(b == expect, "C13: schema read back at format {} equals the stored schema{} [{:?}]", v, if v == 0 { " minus memory-layout annotations" } else { "" }, d);
            assert!(rd.len() == 2, "C13: decoding consumes exactly the schema section (format {}) [{:?}]", v, d);
        }
        Err(e) => assert!(false, "C13: a valid schema section (format {}) must decode: {:?} [{:?}]", v, e, d),
    }
}

// ---- C05 / C13 (bounded fallback for V-diff): diff_schema on PAIRS of generated trees ---------------------------
/// structural wire equality on the description trees (struct and field names and every memory-layout annotation are
/// irrelevant; variant names, discriminants, discriminant width, counts, kinds and array lengths are relevant;
/// Undefined is never equal to anything)
fn d_fields_eq(a: &[F], b: &[F]) -> bool { a.len() == b.len() && a.iter().zip(b.iter()).all(|(x, y)| d_eq(&x.1, &y.1)) }
pub fn d_eq(a: &D, b: &D) -> bool {
    match (a, b) {
        (D::U8, D::U8) | (D::U32, D::U32) | (D::Canary, D::Canary) | (D::Str9(_), D::Str9(_)) | (D::Custom, D::Custom) | (D::ZeroSize, D::ZeroSize) | (D::Str, D::Str)
        | (D::StdIoError, D::StdIoError) | (D::UninitSlice, D::UninitSlice) | (D::UtcTimestamp, D::UtcTimestamp) => true,
        (D::Vector(x, _), D::Vector(y, _)) | (D::Opt(x), D::Opt(y)) | (D::Boxed(x), D::Boxed(y)) | (D::Slice(x), D::Slice(y)) | (D::Ref(x), D::Ref(y)) => d_eq(x, y),
        (D::Arr(n, x), D::Arr(m, y)) => n == m && d_eq(x, y),
        (D::Struct { fields: fa, .. }, D::Struct { fields: fb, .. }) => d_fields_eq(fa, fb),
        (D::Enum { variants: va, dsize: da, .. }, D::Enum { variants: vb, dsize: db, .. }) =>
            da == db && va.len() == vb.len() && va.iter().zip(vb.iter()).all(|(x, y)| x.0 == y.0 && x.1 == y.1 && d_fields_eq(&x.2, &y.2)),
        (D::Recursion(x), D::Recursion(y)) => x == y,
        _ => false,
    }
}
fn small<S: Src>(s: &mut S) -> D {
    match s.below(10) {
        0 => D::U8, 1 => D::U32, 2 => D::Str9([0u8, 7][s.below(2)]),
        3 => D::Vector(Box::new(leaf_small(s)), [0u8, 2][s.below(2)]),
        4 => D::Opt(Box::new(leaf_small(s))),
        5 => D::Arr([2usize, 3][s.below(2)], Box::new(leaf_small(s))),
        6 => { let n = s.below(3); D::Struct { size: if s.bool() { Some(8) } else { None }, al: Some(4), fields: (0..n).map(|i| (["a", "zz"][s.below(2)].to_string(), leaf_small(s), if s.bool() { Some(i) } else { None })).collect() } }
        7 => {
            let nv = 1 + s.below(2);
            D::Enum { variants: (0..nv).map(|i| (["V", "W"][s.below(2)].to_string(), [i as u8, 9][s.below(2)], if i == 0 { let n = s.below(2); (0..n).map(|_| ("f".to_string(), leaf_small(s), None)).collect() } else { Vec::new() })).collect(),
                      dsize: [1u8, 2][s.below(2)], repr: s.bool(), size: None, al: None }
        }
        8 => D::Boxed(Box::new(leaf_small(s))),
        _ => {
            // an enum with a completely known memory layout as a struct field (and as a field of another enum's variant)
            let inner = D::Enum { variants: vec![(["V", "W"][s.below(2)].to_string(), [0u8, 1][s.below(2)], vec![("f".to_string(), [D::U8, D::U32][s.below(2)].clone(), Some(4))])], dsize: 1, repr: true, size: Some(8), al: Some(4) };
            if s.bool() { D::Struct { size: Some(8), al: Some(4), fields: vec![("e".to_string(), inner, Some(0))] } }
            else { D::Enum { variants: vec![("Outer".to_string(), 0, vec![("e".to_string(), inner, Some(4))])], dsize: 1, repr: true, size: Some(12), al: Some(4) } }
        }
    }
}
fn leaf_small<S: Src>(s: &mut S) -> D { match s.below(5) { 0 => D::U8, 1 => D::U32, 2 => D::Str9(0), 3 => D::Canary, _ => D::ZeroSize } }

/// diff_schema(a, b) reports no difference exactly for wire-equal trees (both argument orders), never panics.
pub fn diff_tree_pairs<S: Src>(s: &mut S) {
    let a = small(s);
    let b = small(s);
    let (sa, sb) = (build(&a, false), build(&b, false));
    let none = savefile::diff_schema(&sa, &sb, String::new(), false).is_none();
    assert!(none == d_eq(&a, &b), "C05/C13: diff_schema reports no difference exactly for wire-equal schemas: {:?} vs {:?}", a, b);
    let none_rev = savefile::diff_schema(&sb, &sa, String::new(), false).is_none();
    assert!(none_rev == none, "C05/C13: the comparison does not depend on the argument order: {:?} vs {:?}", a, b);
}
