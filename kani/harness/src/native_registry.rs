// Native-only bounded harnesses: registry (compiled only outside Kani; see lib.rs)
pub mod native_misc;
pub mod native_enum256;
pub mod native_abi;
pub mod native_schemacodec;
#[cfg(feature = "xnative")]
pub mod native_crypto;
#[cfg(feature = "xnative")]
pub mod native_lib;
// Native-only bounded harnesses (small-scope enumeration; CBMC cannot handle the heap-heavy schema code).
// name, body, properties, functions, bound  -- parsed by tools/native_run.py from the `n(` lines below.
include!("native_family.rs");
pub fn native_registry() -> Vec<(&'static str, fn(&mut crate::src::EnumSrc))> {
    let mut v = native_family_registry();
    #[cfg(feature = "xnative")]
    v.extend(native_family_registry_x());
    v.extend(native_misc_registry());
    v
}
fn native_misc_registry() -> Vec<(&'static str, fn(&mut crate::src::EnumSrc))> {
    let mut v = native_misc_registry0();
    #[cfg(feature = "xnative")]
    v.extend(vec![
        // n(nencrypted_passwords, "C14,C01", "savefile::save_encrypted_file; savefile::load_encrypted_file; CryptoWriter::new/write/flush/drop; CryptoReader::new/read (real ring AES-256-GCM, real bzip2)", "small-scope documents (payload 0..140 kB, i.e. one and two crypto chunks) x 9 passwords for saving x 9 for loading (whitespace, line-terminator, case and combining-mark variants)");
        ("nencrypted_passwords", (|s: &mut crate::src::EnumSrc| crate::native_crypto::encrypted_passwords(s)) as fn(&mut crate::src::EnumSrc)),
        // n(nencrypted_tamper, "C14,C07", "savefile::load_encrypted_file; CryptoReader::new; CryptoReader::read (real ring)", "small-scope documents; every byte offset for files <= 160 bytes, else offsets around the nonce, size headers, chunk boundary and end; 3 bit patterns; truncation at the same offsets");
        ("nencrypted_tamper", (|s: &mut crate::src::EnumSrc| crate::native_crypto::encrypted_tamper(s)) as fn(&mut crate::src::EnumSrc)),
        // n(nrt_library, "C01,C02", "hand-written Serialize/Deserialize impls: IpAddr, SocketAddr, Duration, SystemTime, chrono::DateTime<Utc>, PathBuf, String, char, Option, Result, tuples, arrays, Box<[T]>, Arc<[T]>, Arc<str>, Rc, RefCell, Cell, Box, Vec, VecDeque, BinaryHeap, BTreeMap, BTreeSet, HashMap, HashSet, parking_lot Mutex/RwLock, std Mutex, atomics, Range, PhantomData, (), bit_vec 0.6/0.8, bit_set 0.5/0.8, ArrayVec, ArrayString, SmallVec, IndexMap, IndexSet, f32/f64, i128/u128, isize/usize, Canary1, Cow", "80 fixed values with golden bytes");
        ("nrt_library", (|s: &mut crate::src::EnumSrc| crate::native_lib::rt_library(s)) as fn(&mut crate::src::EnumSrc)),
        // n(nschema_library3, "C12", "hand-written WithSchema impls: parking_lot Mutex/RwLock, chrono::DateTime<Utc>, Duration", "4 type shapes, one small-scope byte varied");
        ("nschema_library3", (|s: &mut crate::src::EnumSrc| crate::native_misc::schema_library3(s)) as fn(&mut crate::src::EnumSrc)),
        // n(nschema_bitvec, "C12", "WithSchema for bit_vec::BitVec (0.6, 0.8) and bit_set::BitSet (0.5, 0.8); their Serialize impls", "one value per type");
        ("nschema_bitvec", (|s: &mut crate::src::EnumSrc| crate::native_misc::schema_bitvec(s)) as fn(&mut crate::src::EnumSrc)),
        // n(nnalgebra, "C01,C02,C04", "Serialize/Deserialize/Packed for nalgebra::Isometry3, Point3, Vector3; Vec / array bulk paths over them; derive for a repr(C) struct holding an Isometry3", "5 rotations (incl. ones whose quaternion norm is not exactly 1.0) x small-scope translations");
        ("nnalgebra", (|s: &mut crate::src::EnumSrc| crate::native_lib::nalgebra_types(s)) as fn(&mut crate::src::EnumSrc)),
        // n(nold_format_files, "C02,C13", "Deserializer::load_impl (plain and bzip2 branch, library format 0); Deserialize for Schema and its parts at format 0; diff_schema", "one hand-built library-format-0 file with schema section, plain and bzip2-compressed");
        ("nold_format_files", (|s: &mut crate::src::EnumSrc| crate::native_crypto::old_format_files(s)) as fn(&mut crate::src::EnumSrc)),
        // n(ngate_versions_as, "C05", "derive WithSchema for fields with savefile_versions_as (schema at versions above the conversion range); Deserializer::load_impl schema gate; diff_schema", "2 definitions x 4 foreign layouts x small-scope values");
        ("ngate_versions_as", (|s: &mut crate::src::EnumSrc| crate::native_crypto::gate_versions_as(s)) as fn(&mut crate::src::EnumSrc)),
        // n(ncrypto_stream, "C08,C01,C07,C14", "CryptoWriter::new; CryptoWriter::write; CryptoWriter::flush; Drop for CryptoWriter; CryptoReader::new; CryptoReader::read (real ring)", "payload lengths 0..230000 (around the 100000-byte chunk size), 4 write-piece sizes; inner reader chunk sizes 1..4096 x 5 Interrupted patterns x 4 read sizes; reader/writer failure at 7-9 offsets; short-writing inner writer; inner writer whose flush fails; stream cut at every chunk boundary");
        ("ncrypto_stream", (|s: &mut crate::src::EnumSrc| crate::native_crypto::crypto_stream(s)) as fn(&mut crate::src::EnumSrc)),
        // n(ncompressed_container, "C01,C07", "savefile::save_compressed; Serializer::save_impl (bzip2 branch); Deserializer::load_impl (bzip2 branch)", "small-scope documents; every cut for files <= 160 bytes, else 12 cut points");
        ("ncompressed_container", (|s: &mut crate::src::EnumSrc| crate::native_crypto::compressed_container(s)) as fn(&mut crate::src::EnumSrc)),
    ]);
    v
}
fn native_misc_registry0() -> Vec<(&'static str, fn(&mut crate::src::EnumSrc))> {
    vec![
        // n(nschema_library, "C12", "hand-written WithSchema impls: Vec, tuples, Option, arrays, Box, String, BTreeMap, BTreeSet, VecDeque, Duration", "small-scope values");
        ("nschema_library", (|s: &mut crate::src::EnumSrc| crate::schemaread::schema_library(s)) as fn(&mut crate::src::EnumSrc)),
        // n(nschema_result, "C12", "WithSchema for Result<T,R> (get_result_schema); Serialize for Result", "small-scope values");
        ("nschema_result", (|s: &mut crate::src::EnumSrc| crate::schemaread::schema_result(s)) as fn(&mut crate::src::EnumSrc)),
        // n(nschema_hashmap_guard, "C12", "WithSchema for HashMap<K,V> (recursion guard)", "small-scope values");
        ("nschema_hashmap_guard", (|s: &mut crate::src::EnumSrc| crate::schemaread::schema_hashmap_guard(s)) as fn(&mut crate::src::EnumSrc)),
        // n(nschema_socketaddr, "C12", "WithSchema for SocketAddr; Serialize for SocketAddr", "small-scope values");
        ("nschema_socketaddr", (|s: &mut crate::src::EnumSrc| crate::schemaread::schema_socketaddr(s)) as fn(&mut crate::src::EnumSrc)),
        // n(nschema_evermid_old, "C12", "derive WithSchema: variants filtered by version (EVerMid at version 1)", "all values representable at version 1");
        ("nschema_evermid_old", (|s: &mut crate::src::EnumSrc| crate::schemaread::schema_evermid_old(s)) as fn(&mut crate::src::EnumSrc)),
        // n(nfault_library, "C08", "Serializer::save_impl; Deserializer::load_impl; savefile::save; savefile::load; Serialize/Deserialize for String, Vec<T>, Option, tuples, BTreeMap, Box<[T]>", "6 container shapes, lengths <= 40; every write-failure offset, flush failure, short writes 1..3 with Interrupted patterns, every read-failure offset, chunked reads 1..4");
        ("nfault_library", (|s: &mut crate::src::EnumSrc| crate::native_misc::fault_library(s)) as fn(&mut crate::src::EnumSrc)),
        // n(ntrunc_library, "C07", "Deserializer::read_string; Deserializer::read_usize; regular_deserialize_vec; Deserialize for Vec<T> (bulk path); Deserializer::load_impl", "String/Vec<u8>/Vec<u32>/tuple/BTreeMap with lengths 0..70000; every cut for files <= 96 bytes, else cuts around both ends, every power of two, 4096/8192 from the end");
        ("ntrunc_library", (|s: &mut crate::src::EnumSrc| crate::native_misc::trunc_library(s)) as fn(&mut crate::src::EnumSrc)),
        // n(nintro_library, "C17", "Introspect::introspect_len; Introspect::introspect_child for the hand-written impls (collections, maps, sets, Option, Result, Box, Rc, Arc, RefCell, Mutex, RwLock, tuples, arrays, Schema, BitVec, ArrayVec, SmallVec, IndexMap, IndexSet, Range)", "32 value shapes with <= 3 elements (incl. a poisoned std Mutex and a RefCell with a shared borrow outstanding), checked recursively to depth 3, indices 0..len, len..2len+1 and near usize::MAX");
        ("nintro_library", (|s: &mut crate::src::EnumSrc| crate::native_misc::intro_library(s)) as fn(&mut crate::src::EnumSrc)),
        // n(nintro_navigate0, "C17", "Introspector::do_introspect; Introspector::dive; IntrospectionResult::total_index; IntrospectionResult::total_len", "object: a tuple of vector / option; sequences of <= 3 commands (Nothing, Up, SelectNth, ExpandElement) with depths/indices from {0,1,2,5,usize::MAX}, with and without child limit (first 2,000,000 combinations in enumeration order)");
        ("nintro_navigate0", (|s: &mut crate::src::EnumSrc| crate::native_misc::intro_navigate::<_, 0>(s)) as fn(&mut crate::src::EnumSrc)),
        // n(nintro_navigate1, "C17", "Introspector::do_introspect; Introspector::dive; IntrospectionResult::total_index; IntrospectionResult::total_len", "object: a BTreeMap of vectors; sequences of <= 3 commands (Nothing, Up, SelectNth, ExpandElement) with depths/indices from {0,1,2,5,usize::MAX}, with and without child limit (first 2,000,000 combinations in enumeration order)");
        ("nintro_navigate1", (|s: &mut crate::src::EnumSrc| crate::native_misc::intro_navigate::<_, 1>(s)) as fn(&mut crate::src::EnumSrc)),
        // n(nintro_navigate2, "C17", "Introspector::do_introspect; Introspector::dive; IntrospectionResult::total_index; IntrospectionResult::total_len", "object: a vector of optional boxed tuples; sequences of <= 3 commands (Nothing, Up, SelectNth, ExpandElement) with depths/indices from {0,1,2,5,usize::MAX}, with and without child limit (first 2,000,000 combinations in enumeration order)");
        ("nintro_navigate2", (|s: &mut crate::src::EnumSrc| crate::native_misc::intro_navigate::<_, 2>(s)) as fn(&mut crate::src::EnumSrc)),
        // n(nintro_navigate3, "C17", "Introspector::do_introspect; Introspector::dive; IntrospectionResult::total_index; IntrospectionResult::total_len", "object: a derived struct (SNest); sequences of <= 3 commands (Nothing, Up, SelectNth, ExpandElement) with depths/indices from {0,1,2,5,usize::MAX}, with and without child limit (first 2,000,000 combinations in enumeration order)");
        ("nintro_navigate3", (|s: &mut crate::src::EnumSrc| crate::native_misc::intro_navigate::<_, 3>(s)) as fn(&mut crate::src::EnumSrc)),
        // n(nintro_navigate4, "C17", "Introspector::do_introspect; Introspector::dive; IntrospectionResult::total_index; IntrospectionResult::total_len", "object: a derived enum (EData); sequences of <= 3 commands (Nothing, Up, SelectNth, ExpandElement) with depths/indices from {0,1,2,5,usize::MAX}, with and without child limit (first 2,000,000 combinations in enumeration order)");
        ("nintro_navigate4", (|s: &mut crate::src::EnumSrc| crate::native_misc::intro_navigate::<_, 4>(s)) as fn(&mut crate::src::EnumSrc)),
        // n(nintro_navigate5, "C17", "Introspector::do_introspect; Introspector::dive; IntrospectionResult::total_index; IntrospectionResult::total_len", "object: a HashMap of tuples; sequences of <= 3 commands (Nothing, Up, SelectNth, ExpandElement) with depths/indices from {0,1,2,5,usize::MAX}, with and without child limit (first 2,000,000 combinations in enumeration order)");
        ("nintro_navigate5", (|s: &mut crate::src::EnumSrc| crate::native_misc::intro_navigate::<_, 5>(s)) as fn(&mut crate::src::EnumSrc)),
        // n(nabi_pairs, "C09,C10,C11", "AbiConnection::new_internal; AbiConnection::analyze_and_create; arg_layout_compatible; abi_entry_light; savefile_abi_exportable output (caller and callee trampolines, closure wrappers, boxed-closure wrappers); parse_return_value_impl", "one interface in versions 0 and 1 (struct argument and return type gaining a field), 4 caller/implementation combinations x 8 methods (versioned fields first on the wire, so a wrong-version encoding shifts the retained fields) x small-scope argument values");
        ("nabi_pairs", (|s: &mut crate::src::EnumSrc| crate::native_abi::abi_pairs(s)) as fn(&mut crate::src::EnumSrc)),
        // n(nabi_more, "C09,C10", "savefile_abi_exportable output for &str / String / &[T] / Vec / Result / Option / &mut dyn FnMut arguments and returns; FlexBuffer (arguments beyond the inline buffer); AbiConnection::analyze_and_create (method matching by name)", "4 caller/implementation combinations whose traits list the methods in different orders x String lengths 0..70000 x slice lengths 0..5000 x small-scope bytes");
        ("nabi_more", (|s: &mut crate::src::EnumSrc| crate::native_abi::abi_more(s)) as fn(&mut crate::src::EnumSrc)),
        // n(nabi_nested, "C09,C10", "savefile_abi_exportable output for Box<dyn Trait> arguments and returns (nested connections, get_definition of nested traits at the negotiated version); AbiConnection::analyze_and_create (roles of caller and implementation definitions); Drop for AbiConnection; abi_entry_light panic path", "3 caller/implementation version combinations (older caller with newer implementation is refused by design for an extended callback interface) x 3 scenarios x small-scope values");
        ("nabi_nested", (|s: &mut crate::src::EnumSrc| crate::native_abi::abi_nested(s)) as fn(&mut crate::src::EnumSrc)),
        // n(nlayout_types, "C11", "Schema::layout_compatible on schemas produced by derive WithSchema (field offsets, AbiRemoved placeholders in enum variants) and by WithSchema for Box<[T]> / Arc<[T]> / Vec<T>", "5 pairs of concrete types that differ in memory layout");
        ("nlayout_types", (|s: &mut crate::src::EnumSrc| crate::native_abi::layout_type_pairs(s)) as fn(&mut crate::src::EnumSrc)),
        // n(nlayout_smart_pointers, "C11", "WithSchema for Box<T> / Arc<T> (schema of T itself) as seen by Schema::layout_compatible", "2 pairs of concrete types");
        ("nlayout_smart_pointers", (|s: &mut crate::src::EnumSrc| crate::native_abi::layout_smart_pointers(s)) as fn(&mut crate::src::EnumSrc)),
        // n(nabi_wide, "C09,C11", "AbiConnection::analyze_and_create (by-reference mask); savefile_abi_exportable output for a 40-argument method", "one 40-argument method; one argument and one string length vary");
        ("nabi_wide", (|s: &mut crate::src::EnumSrc| crate::native_abi::abi_wide(s)) as fn(&mut crate::src::EnumSrc)),
        // n(nabi_incompatible, "C10", "AbiConnection::analyze_and_create (argument count, argument type, return type checks)", "3 incompatible signature pairs and the identical pair");
        ("nabi_incompatible", (|s: &mut crate::src::EnumSrc| crate::native_abi::abi_incompatible(s)) as fn(&mut crate::src::EnumSrc)),
        // n(nschemacodec, "C13", "Serialize for Schema/SchemaStruct/SchemaEnum/Variant/Field/SchemaArray/SchemaPrimitive; Deserialize for the same; new_schema_deserializer", "schema trees of depth <= 3 built from 8 leaf kinds, 12 inner kinds, <= 2 fields, <= 2 variants, layout annotations present/absent; library formats 0, 1, 2");
        ("nschemacodec", (|s: &mut crate::src::EnumSrc| crate::native_schemacodec::schema_codec(s)) as fn(&mut crate::src::EnumSrc)),
        // n(nledger_files, "C15", "savefile_abi::verify_compatiblity; AbiTraitDefinition::verify_backward_compatible; verify_compatible_with_old_impl; Serialize/Deserialize for AbiTraitDefinition (ledger files); diff_schema", "15 scenarios of 2-4 successive runs over 12 editions of one interface (unchanged, with Sync / Send / Send+Sync bounds, new versioned field, new method, boxed-future return + closure argument, changed argument count / argument type / return type, removed method, break of the newest recorded version only) on a real temporary directory");
        ("nledger_files", (|s: &mut crate::src::EnumSrc| crate::native_abi::ledger_files(s)) as fn(&mut crate::src::EnumSrc)),
        // n(nmal_library, "C06", "Deserialize for String, Vec<T>, HashMap, BTreeMap, Option, VecDeque, BinaryHeap, BTreeSet, HashSet, Box<[T]>, Arc<[T]>, Arc<str>, ArrayVec, SmallVec, BitVec, tuples, char, bool, Result, IndexMap, IndexSet, IpAddr, Duration; Deserializer::read_string; regular_deserialize_vec", "35 valid encodings of small values, each with: every single-byte replacement by one of 6 values (length-like 8-byte fields: low byte only, 5 values), every truncation, 1-2 appended bytes");
        ("nmal_library", (|s: &mut crate::src::EnumSrc| crate::native_misc::malformed_library(s)) as fn(&mut crate::src::EnumSrc)),
        // n(nmal_bitvec, "C06", "<bit_vec::BitVec as Deserialize>::deserialize", "declared bit counts from the small u64 domain over storages of 4..8 bytes");
        ("nmal_bitvec", (|s: &mut crate::src::EnumSrc| crate::collections::mal_bitvec_all(s)) as fn(&mut crate::src::EnumSrc)),
        // n(nschema_library2, "C12", "hand-written WithSchema impls: Rc, Arc, Cow, BinaryHeap, HashSet, char, atomics, Range, SystemTime, IpAddr, PathBuf, 1-tuples, Cell, RefCell, Mutex, Arc<str>, Arc<[T]>, Box<[T]>, ArrayVec, ArrayString, SmallVec, IndexMap, IndexSet, nested Option, nested arrays, HashMap, i128, f64, isize, Canary1, PhantomData", "34 type shapes, one small-scope byte varied");
        ("nschema_library2", (|s: &mut crate::src::EnumSrc| crate::native_misc::schema_library2(s)) as fn(&mut crate::src::EnumSrc)),
        // n(nevo_enum256, "C03,C02", "derive(Savefile) discriminant width rule (get_enum_size) with a versioned 256th variant; derive Deserialize / WithSchema for enums; Deserializer::load_impl", "3 variants x with/without schema");
        ("nevo_enum256", (|s: &mut crate::src::EnumSrc| crate::native_misc::evolve_enum256(s)) as fn(&mut crate::src::EnumSrc)),
        // n(nschema_E257, "C12", "derive WithSchema for an enum with 257 variants (discriminant_size 2); derive Serialize", "variants with index < 256");
        ("nschema_E257", (|s: &mut crate::src::EnumSrc| crate::native_misc::schema_e257::<_, false>(s)) as fn(&mut crate::src::EnumSrc)),
        // n(nschema_E257_high, "C12", "derive WithSchema for an enum with 257 variants: Variant::discriminant is a u8", "the variant with index 256");
        ("nschema_E257_high", (|s: &mut crate::src::EnumSrc| crate::native_misc::schema_e257::<_, true>(s)) as fn(&mut crate::src::EnumSrc)),
        // n(pairs_diff_trees, "C05,C13,C15", "diff_schema; diff_struct; diff_fields; diff_enum; diff_primitive; diff_vector; diff_array; diff_option (both argument orders)", "ordered pairs of schema trees of depth <= 2 (9 node kinds, <= 2 fields, <= 2 variants, names / layout annotations / discriminants / widths / array lengths varied)");
        ("pairs_diff_trees", (|s: &mut crate::src::EnumSrc| crate::native_schemacodec::diff_tree_pairs(s)) as fn(&mut crate::src::EnumSrc)),
        // n(pairs_diff, "C05,C13,C15", "diff_schema; diff_enum; diff_fields; diff_primitive", "pairs of one-variant enums with <= 2 primitive fields; discriminants/widths from small domains");
        ("pairs_diff", (|s: &mut crate::src::EnumSrc| crate::schemapairs::diff_pairs(s)) as fn(&mut crate::src::EnumSrc)),
        // n(pairs_layout, "C09,C11", "Schema::layout_compatible; SchemaEnum/Variant/Field::layout_compatible", "pairs of one-variant enums with <= 2 primitive fields, two offsets");
        ("pairs_layout", (|s: &mut crate::src::EnumSrc| crate::schemapairs::layout_pairs(s)) as fn(&mut crate::src::EnumSrc)),
        // n(ledger_compat, "C15", "AbiTraitDefinition::verify_backward_compatible; verify_compatible_with_old_impl; diff_schema", "one recorded method, <= 2 arguments of 3 primitive kinds, async flag, presence");
        ("ledger_compat", (|s: &mut crate::src::EnumSrc| crate::ledger::ledger_compat(s)) as fn(&mut crate::src::EnumSrc)),
    ]
}
