//! Independent reference encoder: the documented savefile wire format, written without
//! calling into `savefile` (only std `to_le_bytes`). Oracle for C02 (absolute bytes).
//!
//!   primitives: little endian, fixed width; usize/isize as 8 bytes; bool as 0/1;
//!   char as its u32 scalar; f32/f64 by bit pattern; String: u64 length + utf8;
//!   Option: 0 | 1 ++ x; Result: 1 ++ ok | 0 ++ err; sequences: u64 length ++ elements;
//!   tuples/arrays/struct fields: concatenation in declaration order;
//!   enum: variant index in the declared width ++ fields.
pub trait RefEnc {
    fn renc(&self, version: u32, out: &mut Vec<u8>);
    /// the in-memory bit pattern is a valid value of the type (bool is 0/1, char is a scalar value, ...)
    fn ok(&self) -> bool { true }
}
pub fn ref_bytes<T: RefEnc>(v: &T, version: u32) -> Vec<u8> {
    let mut out = Vec::new();
    v.renc(version, &mut out);
    out
}
macro_rules! le_impl {
    ($($t:ty),*) => { $( impl RefEnc for $t { fn renc(&self, _v: u32, out: &mut Vec<u8>) { out.extend_from_slice(&self.to_le_bytes()); } } )* }
}
le_impl!(u8, i8, u16, i16, u32, i32, u64, i64, u128, i128);
impl RefEnc for usize { fn renc(&self, _v: u32, out: &mut Vec<u8>) { out.extend_from_slice(&(*self as u64).to_le_bytes()); } }
impl RefEnc for isize { fn renc(&self, _v: u32, out: &mut Vec<u8>) { out.extend_from_slice(&(*self as i64).to_le_bytes()); } }
impl RefEnc for f32 { fn renc(&self, _v: u32, out: &mut Vec<u8>) { out.extend_from_slice(&self.to_bits().to_le_bytes()); } }
impl RefEnc for f64 { fn renc(&self, _v: u32, out: &mut Vec<u8>) { out.extend_from_slice(&self.to_bits().to_le_bytes()); } }
impl RefEnc for bool {
    fn renc(&self, _v: u32, out: &mut Vec<u8>) { out.push(if *self { 1 } else { 0 }); }
    fn ok(&self) -> bool { unsafe { *(self as *const bool as *const u8) <= 1 } }
}
impl RefEnc for char {
    fn renc(&self, _v: u32, out: &mut Vec<u8>) { out.extend_from_slice(&(*self as u32).to_le_bytes()); }
    fn ok(&self) -> bool { let x = unsafe { *(self as *const char as *const u32) }; x < 0xD800 || (x > 0xDFFF && x <= 0x10FFFF) }
}
impl RefEnc for () { fn renc(&self, _v: u32, _out: &mut Vec<u8>) {} }
impl RefEnc for String {
    fn renc(&self, _v: u32, out: &mut Vec<u8>) {
        out.extend_from_slice(&(self.len() as u64).to_le_bytes());
        out.extend_from_slice(self.as_bytes());
    }
}
impl<T: RefEnc> RefEnc for Option<T> {
    fn renc(&self, v: u32, out: &mut Vec<u8>) {
        match self { None => out.push(0), Some(x) => { out.push(1); x.renc(v, out); } }
    }
    fn ok(&self) -> bool { match self { None => true, Some(x) => x.ok() } }
}
impl<T: RefEnc, E: RefEnc> RefEnc for Result<T, E> {
    fn renc(&self, v: u32, out: &mut Vec<u8>) {
        match self { Ok(x) => { out.push(1); x.renc(v, out); } Err(e) => { out.push(0); e.renc(v, out); } }
    }
}
impl<T: RefEnc> RefEnc for Vec<T> {
    fn renc(&self, v: u32, out: &mut Vec<u8>) {
        out.extend_from_slice(&(self.len() as u64).to_le_bytes());
        for x in self.iter() { x.renc(v, out); }
    }
    fn ok(&self) -> bool { let mut r = true; for x in self.iter() { r = r && x.ok(); } r }
}
impl<T: RefEnc> RefEnc for Box<T> { fn renc(&self, v: u32, out: &mut Vec<u8>) { (**self).renc(v, out); } fn ok(&self) -> bool { (**self).ok() } }
impl<T: RefEnc, const N: usize> RefEnc for [T; N] {
    fn renc(&self, v: u32, out: &mut Vec<u8>) { for x in self.iter() { x.renc(v, out); } }
    fn ok(&self) -> bool { let mut r = true; for x in self.iter() { r = r && x.ok(); } r }
}
impl<A: RefEnc> RefEnc for (A,) { fn renc(&self, v: u32, out: &mut Vec<u8>) { self.0.renc(v, out); } fn ok(&self) -> bool { self.0.ok() } }
impl<A: RefEnc, B: RefEnc> RefEnc for (A, B) {
    fn renc(&self, v: u32, out: &mut Vec<u8>) { self.0.renc(v, out); self.1.renc(v, out); }
    fn ok(&self) -> bool { self.0.ok() && self.1.ok() }
}
impl<A: RefEnc, B: RefEnc, C: RefEnc> RefEnc for (A, B, C) {
    fn renc(&self, v: u32, out: &mut Vec<u8>) { self.0.renc(v, out); self.1.renc(v, out); self.2.renc(v, out); }
    fn ok(&self) -> bool { self.0.ok() && self.1.ok() && self.2.ok() }
}
/// file header: magic, library format version (u16), data version (u32), compression flag
pub fn ref_header(libver: u16, dataver: u32, compressed: bool) -> Vec<u8> {
    let mut out = b"savefile\0".to_vec();
    out.extend_from_slice(&libver.to_le_bytes());
    out.extend_from_slice(&dataver.to_le_bytes());
    out.push(if compressed { 1 } else { 0 });
    out
}

// ---- net / time leaves (reference encodings written from the format notes: one-byte variant tag, then the address
// as its integer value (to_bits) in little-endian; a duration as its 128-bit nanosecond count; a SystemTime as the
// nanoseconds from the UNIX epoch with bit 127 set for times before it) -------------------------------------------
impl RefEnc for std::net::IpAddr {
    fn renc(&self, _v: u32, out: &mut Vec<u8>) {
        match self {
            std::net::IpAddr::V4(a) => { out.push(0); let o = a.octets(); out.extend_from_slice(&[o[3], o[2], o[1], o[0]]); }
            std::net::IpAddr::V6(a) => { out.push(1); let o = a.octets(); let mut i = 16; while i > 0 { i -= 1; out.push(o[i]); } }
        }
    }
}
impl RefEnc for std::net::SocketAddr {
    fn renc(&self, _v: u32, out: &mut Vec<u8>) {
        match self {
            std::net::SocketAddr::V4(a) => {
                out.push(0); out.extend_from_slice(&a.port().to_le_bytes());
                let o = a.ip().octets(); out.extend_from_slice(&[o[3], o[2], o[1], o[0]]);
            }
            std::net::SocketAddr::V6(a) => {
                out.push(1); out.extend_from_slice(&a.port().to_le_bytes());
                let o = a.ip().octets(); let mut i = 16; while i > 0 { i -= 1; out.push(o[i]); }
                out.extend_from_slice(&a.flowinfo().to_le_bytes()); out.extend_from_slice(&a.scope_id().to_le_bytes());
            }
        }
    }
}
impl RefEnc for std::time::Duration {
    fn renc(&self, _v: u32, out: &mut Vec<u8>) {
        let n: u128 = (self.as_secs() as u128) * 1_000_000_000 + self.subsec_nanos() as u128;
        out.extend_from_slice(&n.to_le_bytes());
    }
}
