// Demonstration of three genuine defects in the encrypted container (appended to savefile-test/src/lib.rs in a
// scratch worktree; fails on the tree before the corresponding "fix:" commits, passes after them).
#[cfg(test)]
mod verif_crypto_defects {
    use savefile::prelude::*;
    use savefile::{CryptoReader, CryptoWriter};
    use std::io::{self, ErrorKind, Read, Write};

    // C07 / C14: an encrypted file cut inside the 12-byte nonce must give an error, not a panic
    #[test]
    fn verif_truncated_nonce_is_an_error() {
        let path = std::env::temp_dir().join("verif_trunc_nonce.bin");
        std::fs::write(&path, [1u8, 2, 3, 4, 5]).unwrap();
        let r = std::panic::catch_unwind(|| savefile::load_encrypted_file::<u32, _>(&path, 0, "pw"));
        let _ = std::fs::remove_file(&path);
        match r {
            Ok(res) => assert!(res.is_err()),
            Err(_) => panic!("load_encrypted_file panicked on a file shorter than the nonce"),
        }
    }

    struct FailAfter { left: usize }
    impl Write for FailAfter {
        fn write(&mut self, b: &[u8]) -> io::Result<usize> {
            if self.left == 0 { return Err(io::Error::from(ErrorKind::Other)); }
            let n = b.len().min(self.left);
            self.left -= n;
            Ok(n)
        }
        fn flush(&mut self) -> io::Result<()> { Ok(()) }
    }

    // C08: a failing underlying writer must surface as Err from flush, and dropping the writer afterwards must
    // not panic
    #[test]
    fn verif_failed_flush_then_drop_does_not_panic() {
        let r = std::panic::catch_unwind(|| {
            let mut sink = FailAfter { left: 14 }; // nonce (12 bytes) passes, the first chunk header does not
            let mut w = CryptoWriter::new(&mut sink, [7u8; 32]).unwrap();
            w.write_all(&[1, 2, 3]).unwrap();
            let res = w.flush();
            assert!(res.is_err());
            drop(w);
        });
        assert!(r.is_ok(), "dropping a CryptoWriter after a failed flush panicked");
    }

    // reader that delivers `first` bytes, then one Interrupted error, then everything else
    struct Interrupting<'a> { data: &'a [u8], pos: usize, first: usize, interrupted: bool }
    impl<'a> Read for Interrupting<'a> {
        fn read(&mut self, buf: &mut [u8]) -> io::Result<usize> {
            if self.pos >= self.first && !self.interrupted {
                self.interrupted = true;
                return Err(io::Error::from(ErrorKind::Interrupted));
            }
            let mut n = buf.len().min(self.data.len() - self.pos);
            if self.pos < self.first { n = n.min(self.first - self.pos); }
            buf[..n].copy_from_slice(&self.data[self.pos..self.pos + n]);
            self.pos += n;
            Ok(n)
        }
    }

    // C08: a retryable Interrupted error in the middle of a chunk's 8-byte size header must not lose bytes
    #[test]
    fn verif_interrupted_inside_size_header_is_retried() {
        let mut file = Vec::new();
        {
            let mut w = CryptoWriter::new(&mut file, [7u8; 32]).unwrap();
            w.write_all(&[9, 8, 7, 6, 5]).unwrap();
            w.flush().unwrap();
        }
        let mut src = Interrupting { data: &file, pos: 0, first: 12 + 3, interrupted: false };
        let mut r = CryptoReader::new(&mut src, [7u8; 32]).unwrap();
        let mut out = [0u8; 5];
        r.read_exact(&mut out).expect("intact stream must be readable across an Interrupted error");
        assert_eq!(out, [9, 8, 7, 6, 5]);
    }
}
