// Demonstration (append to savefile-test/src/test_more_async.rs in a scratch worktree):
// the compatibility ledger must succeed on every later run for an UNCHANGED interface, including async ones.
#[test]
fn verif_ledger_unchanged_async_interface_second_run() {
    let dir = std::env::temp_dir().join("verif_ledger_async");
    let _ = std::fs::remove_dir_all(&dir);
    let p = dir.to_str().unwrap();
    let first = std::panic::catch_unwind(|| savefile_abi::verify_compatiblity::<dyn SimpleAsyncInterface>(p));
    assert!(matches!(first, Ok(Ok(()))), "first run (empty directory) must succeed");
    let second = std::panic::catch_unwind(|| savefile_abi::verify_compatiblity::<dyn SimpleAsyncInterface>(p));
    let _ = std::fs::remove_dir_all(&dir);
    match second {
        Ok(Ok(())) => {}
        Ok(Err(e)) => panic!("second run on an unchanged async interface was rejected: {:?}", e),
        Err(_) => panic!("second run on an unchanged async interface panicked"),
    }
}
#[test]
fn verif_ledger_unchanged_boxed_future_interface_second_run() {
    let dir = std::env::temp_dir().join("verif_ledger_boxed");
    let _ = std::fs::remove_dir_all(&dir);
    let p = dir.to_str().unwrap();
    let first = std::panic::catch_unwind(|| savefile_abi::verify_compatiblity::<dyn BoxedAsyncInterface>(p));
    assert!(matches!(first, Ok(Ok(()))), "first run (empty directory) must succeed");
    let second = std::panic::catch_unwind(|| savefile_abi::verify_compatiblity::<dyn BoxedAsyncInterface>(p));
    let _ = std::fs::remove_dir_all(&dir);
    match second {
        Ok(Ok(())) => {}
        Ok(Err(e)) => panic!("second run on an unchanged interface returning a boxed future was rejected: {:?}", e),
        Err(_) => panic!("second run on an unchanged interface returning a boxed future panicked"),
    }
}
