#!/usr/bin/env python3
"""run_seeded.py [ids...]  -- run the registered checks against each seeded change on a scratch worktree.
For each /verif/seeded/<id>: apply patch.diff to a scratch worktree of /repo (outside /repo and /verif), run the
check of the property it breaks (quick tier) with VERIF_REPO pointing there, record exit code and VIOLATION lines in
/verif/seeded/results.json, undo the patch. The scratch worktree and its build output are removed at the end."""
import json, os, subprocess, sys, time, shutil
ROOT = os.path.dirname(os.path.dirname(os.path.abspath(__file__)))
SCR = "/tmp/mut/repo"
ids = sys.argv[1:] or sorted(os.listdir(os.path.join(ROOT, "seeded")))
ids = [i for i in ids if os.path.isdir(os.path.join(ROOT, "seeded", i))]
res_path = os.path.join(ROOT, "seeded", "results.json")
results = json.load(open(res_path)) if os.path.exists(res_path) else {}
if not os.path.isdir(SCR):
    os.makedirs("/tmp/mut", exist_ok=True)
    subprocess.run(["git", "-C", "/repo", "worktree", "add", "-q", "--detach", SCR, "HEAD"], check=True)
else:
    subprocess.run("git checkout -q --detach $(git -C /repo rev-parse HEAD) && git checkout -- .", shell=True, cwd=SCR)
env = dict(os.environ, VERIF_REPO=SCR, VERIF_EVIDENCE_DIR="/tmp/mut/evidence", VERIF_WORK="/tmp/mut/work")
for i in ids:
    d = os.path.join(ROOT, "seeded", i)
    meta = json.load(open(os.path.join(d, "meta.json")))
    prop = meta["property"]
    extra = meta.get("also_check", [])
    r = subprocess.run(["git", "apply", os.path.join(d, "patch.diff")], cwd=SCR, capture_output=True, text=True)
    if r.returncode != 0:
        results[i] = {"error": "patch does not apply: " + r.stderr[:200]}
        continue
    entry = {"property": prop, "runs": {}}
    for p in [prop] + extra:
        t0 = time.time()
        pr = subprocess.run([os.path.join(ROOT, "check"), p, "--tier", "quick"], cwd=ROOT, env=env, capture_output=True, text=True)
        viol = [l for l in pr.stdout.splitlines() if l.startswith("VIOLATION")]
        und = [l for l in pr.stdout.splitlines() if l.startswith("UNDECIDED")]
        detail = [l.strip() for l in pr.stdout.splitlines() if l.startswith("  obligation")]
        entry["runs"][p] = {"exit": pr.returncode, "violations": viol[:6], "undecided": und[:4], "detail": detail[:6], "seconds": round(time.time() - t0)}
        print(i, p, "exit", pr.returncode, len(viol), "violation lines", und[:1], flush=True)
    entry["detected"] = any(v["exit"] == 1 for v in entry["runs"].values())
    results[i] = entry
    subprocess.run("git checkout -- .", shell=True, cwd=SCR)
    json.dump(results, open(res_path, "w"), indent=1)
subprocess.run(["git", "-C", "/repo", "worktree", "remove", "--force", SCR])
shutil.rmtree("/tmp/mut", ignore_errors=True)
# remove the scratch harness copy / target dirs of the scratch path
import glob
for p in glob.glob(os.path.join(ROOT, ".cache", "*tmp_mut_repo*")):
    shutil.rmtree(p, ignore_errors=True)
print(json.dumps({k: v.get("detected") for k, v in results.items()}, indent=0))
