#!/usr/bin/env python3
"""Driver: runs the obligations of one property, classifies, writes evidence."""
import concurrent.futures
import hashlib
import json
import os
import re
import shutil
import subprocess
import sys
import time

HERE = os.path.dirname(os.path.abspath(__file__))
ROOT = os.path.dirname(HERE)
sys.path.insert(0, HERE)
import verus_run  # noqa: E402
import kani_run  # noqa: E402
import native_run  # noqa: E402

REPO = os.environ.get("VERIF_REPO", "/repo")


def load_json(path, default=None):
    try:
        with open(path) as f:
            return json.load(f)
    except FileNotFoundError:
        return default


def known_findings():
    kf = load_json(os.path.join(ROOT, "known_findings.json"), {"findings": [], "fixed": []})
    return kf


def finding_for(pid, ob, kf):
    """A listed finding matches one obligation instance AND (if given) the failing check text, so a
    different failure of the same obligation is still a violation."""
    name = ob["name"]
    for f in kf.get("findings", []):
        props = f.get("properties") or [f.get("property")]
        if pid not in props:
            continue
        if not (name == f["obligation"] or name.startswith(f["obligation"] + "::")):
            continue
        chk = f.get("check")
        if chk:
            texts = ob.get("failed_checks") or [ob.get("detail", "")]
            if not texts or not all(chk in t for t in texts):
                continue
        return f
    return None


def write_replay(pid, obligation, payload):
    d = os.path.join(os.environ.get("VERIF_EVIDENCE_DIR", os.path.join(ROOT, "evidence")), "replay")
    os.makedirs(d, exist_ok=True)
    name = re.sub(r"[^A-Za-z0-9_.-]+", "_", "%s_%s" % (pid, obligation))[:150] + ".json"
    path = os.path.join(d, name)
    with open(path, "w") as f:
        json.dump(payload, f, indent=1)
    return path


def main(argv):
    if not argv:
        print(__doc__)
        return 2
    pid = argv[0]
    if pid == "setup":
        return do_setup()
    tier = os.environ.get("VERIF_TIER", "quick")
    replay = None
    i = 1
    while i < len(argv):
        if argv[i] == "--tier":
            tier = argv[i + 1]
            i += 2
        elif argv[i] == "--replay":
            replay = argv[i + 1]
            i += 2
        else:
            print("unknown argument", argv[i])
            return 2
    if tier not in ("quick", "thorough"):
        tier = "quick"
    seed = int(os.environ.get("VERIF_SEED", "0") or 0)
    cfg_all = load_json(os.path.join(ROOT, "checks.json"))
    if pid not in cfg_all:
        print("no check for", pid)
        return 2
    cfg = cfg_all[pid]
    if replay:
        return do_replay(pid, replay)
    t0 = time.time()
    work = os.path.join(os.environ.get("VERIF_WORK", os.path.join(ROOT, ".work")), pid)
    if os.path.isdir(work):
        shutil.rmtree(work, ignore_errors=True)
    os.makedirs(work, exist_ok=True)
    kf = known_findings()

    verus_units = list(cfg.get("verus", []))
    if tier == "thorough":
        verus_units += cfg.get("verus_thorough", [])
    kani_groups = list(cfg.get("kani", []))
    if tier == "thorough":
        kani_groups += cfg.get("kani_thorough", [])

    obligations = []   # dict(name, engine, status, complete(bool), bound, seconds, detail)
    undecided = []
    assumptions = set(cfg.get("assumptions", []))
    functions_under_contract = []
    solver_s = {"z3(verus)": 0.0, "cbmc(kani)": 0.0}
    cmds = []

    # ---- Verus units (sequential; each is 2-10 s) ---------------------------------
    with concurrent.futures.ThreadPoolExecutor(max_workers=6) as ex:
        futs = {ex.submit(verus_run.run_unit, u, REPO, os.path.join(work, "verus")): u for u in verus_units}
        vres = {futs[f]: f.result() for f in futs}
    for u in verus_units:
        r = vres[u]
        cmds.append(r["cmd"])
        solver_s["z3(verus)"] += r.get("smt_ms", 0) / 1000.0
        for a in r["assumptions"]:
            assumptions.add(a)
        for it in r["items"]:
            functions_under_contract.append({
                "engine": "verus", "unit": u, "file": it["file"], "item": it["selector"], "sha256": it["sha256"],
                "extraction_rules_applied": it["rules"], "body_verified": not it["external_body"]})
        if r["status"] == "undecided":
            undecided.append("verus:%s: %s" % (u, r["detail"]))
            continue
        for fn in r["verified"]:
            obligations.append({"name": "%s::%s" % (u, fn), "engine": "verus/z3", "status": "discharged", "complete": True})
        by_fn = {}
        for e in r["failed"]:
            key = e["selector"] or e["fn"]
            by_fn.setdefault(key, []).append(e)
        for key, es in by_fn.items():
            obligations.append({
                "name": "%s::%s" % (u, key), "engine": "verus/z3", "status": "failed", "complete": True,
                "detail": "; ".join("%s (emitted line %d)" % (e["msg"], e["line"]) for e in es),
                "verifier_output": "\n\n".join(e["text"] for e in es),
                "paired_kani": cfg.get("paired_kani", {}).get(u)})
        for c in r.get("canaries", []):
            obligations.append({"name": "%s::%s(must-fail)" % (u, c), "engine": "verus/z3", "status": "canary-ok", "complete": True})

    # ---- Kani harnesses -------------------------------------------------------------
    if kani_groups:
        kres = kani_run.run_harnesses(kani_groups, REPO, os.path.join(work, "kani"), tier=tier, seed=seed)
        cmds.append(kres["cmd"])
        solver_s["cbmc(kani)"] += kres.get("solver_s", 0.0)
        for a in kres.get("assumptions", []):
            assumptions.add(a)
        for f in kres.get("functions", []):
            functions_under_contract.append(f)
        for u in kres.get("undecided", []):
            undecided.append("kani:" + u)
        obligations.extend(kres["obligations"])

    # ---- native bounded stand-ins (small-scope enumeration on the real code) ---------------------------
    if cfg.get("native"):
        nres = native_run.run(cfg["native"], REPO, os.path.join(work, "native"), tier=tier)
        cmds.append(nres["cmd"])
        functions_under_contract.extend(nres["functions"])
        for u in nres["undecided"]:
            undecided.append("native:" + u)
        obligations.extend(nres["obligations"])

    # ---- classification -----------------------------------------------------------------
    violations = []
    findings_hit = []
    for ob in obligations:
        if ob["status"] != "failed":
            continue
        f = finding_for(pid, ob, kf)
        if f is not None:
            findings_hit.append((f, ob))
            ob["status"] = "known-finding"
            continue
        violations.append(ob)

    exit_code = 0
    for f, ob in findings_hit:
        print("KNOWN-FINDING: property=%s %s" % (pid, f["what"]))
    # findings listed but not hit any more are not printed (a fixed defect prints nothing)
    for ob in violations:
        payload = {
            "property": pid, "obligation": ob["name"], "engine": ob["engine"],
            "detail": ob.get("detail", ""), "verifier_output": ob.get("verifier_output", ""),
            "counterexample": ob.get("counterexample"), "replayed": ob.get("replayed"),
            "replay_result": ob.get("replay_result"),
        }
        suffix = ""
        if ob["engine"].startswith("kani") and ob.get("harness"):
            if not kani_run.attach_counterexample(ob, REPO, os.path.join(work, "kani")):
                undecided.append("kani:harness %s: counterexample did not replay on the real code" % ob["harness"])
                ob["status"] = "undecided"
                continue
            payload["counterexample"] = ob.get("counterexample")
            payload["replayed"] = ob.get("replayed")
            payload["replay_result"] = ob.get("replay_result")
            payload["harness"] = ob["harness"]
        elif ob.get("counterexample") is None:
            # Verus gives no model: try the paired Kani harness for a concrete input
            paired = ob.get("paired_kani")
            found = None
            if paired:
                found = kani_run.find_counterexample(paired, REPO, os.path.join(work, "kani_paired"))
            if found:
                payload["counterexample"] = found["counterexample"]
                payload["replayed"] = found["replayed"]
                payload["replay_result"] = found["replay_result"]
                payload["paired_harness"] = paired
            else:
                suffix = " no-failing-input-found"
        path = write_replay(pid, ob["name"], payload)
        print("VIOLATION property=%s replay=%s%s" % (pid, path, suffix))
        print("  obligation %s [%s]: %s" % (ob["name"], ob["engine"], ob.get("detail", "")[:300]))
        exit_code = 1
    violations = [o for o in violations if o["status"] == "failed"]
    if undecided and exit_code == 0:
        for u in undecided:
            print("UNDECIDED property=%s %s" % (pid, u))
        exit_code = 2

    # ---- evidence ---------------------------------------------------------------------
    proved = [o for o in obligations if o.get("complete") and o["status"] in ("discharged",)]
    # known findings are reported separately (known_findings_hit) and are neither counted as obligations nor as discharged
    proved_obl = [o for o in obligations if o.get("complete") and o["status"] in ("discharged", "failed")]
    bounded = [o for o in obligations if not o.get("complete") and o["status"] != "canary-ok"]
    by_engine = {}
    for o in proved:
        by_engine[o["engine"]] = by_engine.get(o["engine"], 0) + 1
    ev = {
        "property_id": pid,
        "tier": tier,
        "seed": seed,
        "level": cfg.get("level", "proof"),
        "coverage": {
            "obligations": len(proved_obl),
            "discharged": len(proved),
            "discharged_by_backend": by_engine,
            "solver_seconds": {k: round(v, 2) for k, v in solver_s.items()},
            "checker_cmd": " ; ".join(c for c in cmds if c),
            "trusted_base": cfg.get("trusted_base", []) + [
                "rustc, Verus 0.2026.09.13 + z3, Kani 0.68 + CBMC 6.11, /verif/tools/extract.py (diffs in .work/<id>/verus/*.meta.json)"],
            "functions_under_contract": functions_under_contract,
            "bounded_obligations": [{"name": o["name"], "bound": o.get("bound", ""), "status": o["status"]} for o in bounded],
            "bounded_not_counted_as_proved": len(bounded),
            "known_findings_hit": [f["obligation"] for f, _ in findings_hit],
            "undecided": undecided,
            "samples": [o["name"] for o in obligations][:40] + [x for o in obligations for x in o.get("samples", [])][:12],
            "explanation": cfg.get("explanation", ""),
            "exhaustive": False,
            "evaluations": sum(o.get("cases", 1) + o.get("rejected", 0) for o in obligations),
            "distinct_nontrivial": sum(o.get("cases", 1) for o in obligations if o["status"] == "discharged"),
            "rule": "evaluations = every verifier obligation attempted (Verus function/lemma, Kani harness; each covers all inputs) + every choice vector the native small-scope enumeration generated, including those rejected by a harness assumption. distinct_nontrivial = discharged verifier obligations + native choice vectors that satisfied the harness assumptions and ran the real code to completion (choice vectors are distinct by construction: mixed-radix counter over the draw domains); obligations that failed, are undecided or are known findings are not counted",
            "programs": cfg.get("programs", None),
        },
        "assumptions": sorted(set(assumptions) | {
            "general: obligations listed under bounded_obligations (native small-scope enumeration, bounded Kani harnesses) are stand-ins with a stated bound, not proofs",
            "general: definitions accepted by the derive macros are covered for the generated family only (bounded over definitions); the macro generators themselves are not verified",
            "general: machine integers are machine integers in both verifiers (overflow is an obligation, nothing is abstracted to mathematical integers in executable code)",
            "general: unsafe code is executed bit-precisely by Kani inside its harnesses only; it is never extracted into a Verus unit",
            "general: termination is proved only for the Verus-extracted functions (decreases clauses); Kani proves no termination",
        }),
        "wall_s": round(time.time() - t0, 2),
        "violations": len(violations),
    }
    if ev["coverage"]["programs"] is None:
        del ev["coverage"]["programs"]
    evdir = os.environ.get("VERIF_EVIDENCE_DIR", os.path.join(ROOT, "evidence"))
    os.makedirs(evdir, exist_ok=True)
    with open(os.path.join(evdir, pid + ".json"), "w") as f:
        json.dump(ev, f, indent=1)
    print("%s tier=%s obligations=%d discharged=%d bounded=%d findings=%d violations=%d undecided=%d wall=%.1fs" % (
        pid, tier, len(proved_obl), len(proved), len(bounded), len(findings_hit), len(violations), len(undecided),
        time.time() - t0))
    return exit_code


def do_setup():
    """Pre-build the Kani harness crate and the native replay binary (offline)."""
    d, target = kani_run.crate_dir(REPO)
    r = kani_run.run_kani(["leaf_u8"], REPO, os.path.join(ROOT, ".work", "setup"))
    ok = r["data"] is not None
    exe, err = kani_run.build_replay(REPO, d, target)
    print("setup: kani build %s, replay binary %s" % ("ok" if ok else "FAILED", "ok" if exe else "FAILED " + err[-500:]))
    v = subprocess.run(["verus", "--version"], capture_output=True, text=True)
    print("setup: verus %s" % ("ok" if v.returncode == 0 else "MISSING"))
    return 0 if ok and exe and v.returncode == 0 else 1


def do_replay(pid, path):
    payload = load_json(path)
    if payload is None:
        print("no such replay file")
        return 2
    print(json.dumps(payload, indent=1)[:4000])
    cx = payload.get("counterexample")
    if isinstance(cx, dict) and cx.get("enum_digits"):
        # native bounded harness: re-run exactly the failing choice vector on the real code of the current tree
        d, target = kani_run.crate_dir(REPO)
        exe, err = kani_run.build_replay(REPO, d, target)
        if exe is None:
            print("replay binary did not build:", err[-500:])
            return 2
        digits = ",".join(x.strip() for x in cx["enum_digits"].strip("[]").split(",") if x.strip())
        p = subprocess.run([exe, "--case", cx["harness"], digits], capture_output=True, text=True, env=dict(os.environ, RUST_BACKTRACE="0"))
        print("replay: %s --case %s %s -> exit %d\n%s" % (exe, cx["harness"], digits, p.returncode, p.stdout[-1500:]))
        return 1 if p.returncode == 101 else (0 if p.returncode == 0 else 2)
    if payload.get("counterexample") and payload.get("paired_harness") or payload.get("harness"):
        h = payload.get("harness") or payload.get("paired_harness")
        r = kani_run.replay_concrete(h, payload["counterexample"], REPO, os.path.join(ROOT, ".work", pid, "replay"))
        print("replay:", json.dumps(r))
        return 1 if r.get("reproduced") else 0
    return 1
