#!/usr/bin/env python3
"""Generate /verif/MANIFEST.json from checks.json (single source of truth for what is claimed)."""
import json
import os

ROOT = os.path.dirname(os.path.dirname(os.path.abspath(__file__)))
checks = json.load(open(os.path.join(ROOT, "checks.json")))
ids = [json.loads(l)["id"] for l in open(os.path.join(ROOT, "properties.jsonl"))]

NOT_APPLICABLE = {
    "C16": "quantifies over thread interleavings of std::sync::Mutex-based globals and foreign entry points: Kani has no "
           "thread support and Verus reasons about concurrency only for code written against its own permission/atomic "
           "types, which the real code is not; no contract within reach expresses or decides it (DESIGN.md section 8)",
}
DEFAULT_REASON = "check not built yet (build in progress); see DESIGN.md section 5"

hooks = json.load(open(os.path.join(ROOT, "hooks.json"))) if os.path.exists(os.path.join(ROOT, "hooks.json")) else {
    "source_commits": []}

m = {
    "version": 1,
    "setup_cmd": "./check setup",
    "hooks": {
        "guard": "avl_savefile_verif",
        "enable": "NO hook exists: the feature name was reserved, but no instrumentation had to be added to /repo (source_commits is empty); "
                  "every check builds /repo exactly as its own test-suite does (plus cargo features the library already has)",
        "baseline_off_cmd": "cd /repo && cargo test --workspace --no-fail-fast --offline",
        "source_commits": hooks.get("source_commits", []),
        "add_only": True,
    },
    "engines": [
        {"name": "verus", "path": "/verif/verus/units", "kind_free_text":
            "Verus 0.2026.09.13 (z3) on functions extracted mechanically from /repo on every run by tools/extract.py; "
            "contracts, loop invariants, spec functions and lemmas in verus/units/<unit>/contracts.vrs",
         "serves_properties": sorted(p for p, c in checks.items() if c.get("verus") or c.get("verus_thorough"))},
        {"name": "kani", "path": "/verif/kani/harness", "kind_free_text":
            "Kani 0.68 / CBMC 6.11 on the real compiled crates (path dependencies on /repo); contracts as assume/assert on "
            "monomorphic wrappers; loop-free full-domain harnesses are complete proofs, others are labelled bounded; "
            "counterexamples replayed natively through the same harness body (src/bin/replay.rs)",
         "serves_properties": sorted(p for p, c in checks.items() if c.get("kani") or c.get("kani_thorough"))},
        {"name": "native", "path": "/verif/kani/harness/src/native_registry.rs", "kind_free_text":
            "BOUNDED stand-in only (never counted as proved): small-scope enumeration of harness bodies on the natively compiled real "
            "code (replay --enum), used where neither verifier reaches a function; bound stated per harness",
         "serves_properties": sorted(p for p, c in checks.items() if c.get("native"))},
    ],
    "checks": [],
    "notes": "Contract-based deductive verification of the real code; see DESIGN.md. exit 2 = undecided (never an alarm).",
    "not_applicable": [],
}
for pid in ids:
    if pid in checks and checks[pid].get("claimed", True):
        c = checks[pid]
        m["checks"].append({
            "property_id": pid,
            "quick_cmd": "./check %s --tier quick" % pid,
            "thorough_cmd": "./check %s --tier thorough" % pid,
            "evidence_file": "/verif/evidence/%s.json" % pid,
            "replay_cmd_template": "./check %s --replay {path}" % pid,
            "engine": "+".join(e for e in ("verus", "kani", "native") if c.get(e) or c.get(e + "_thorough")),
            "level_claimed": {"category": c.get("level", "proof"), "text": c.get("level_text", c.get("explanation", "")),
                              "design_ref": c.get("design_ref", "DESIGN.md section 7 / " + pid)},
            "level_note": c.get("level_note", ""),
            "technique": c.get("technique", "contract-based deductive verification (Verus / Kani function contracts)"),
        })
    else:
        m["not_applicable"].append({"property_id": pid, "reason": NOT_APPLICABLE.get(pid, checks.get(pid, {}).get("na_reason", DEFAULT_REASON))})
json.dump(m, open(os.path.join(ROOT, "MANIFEST.json"), "w"), indent=1)
print("MANIFEST.json: %d checks, %d not_applicable" % (len(m["checks"]), len(m["not_applicable"])))
