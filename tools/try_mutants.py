#!/usr/bin/env python3
"""try_mutants.py <scratch-tag> <id>:<prop>[,<prop>] ...   run selected checks against selected seeded changes
on a scratch worktree /tmp/<scratch-tag>/repo (removed afterwards). Results appended to seeded/results2.json."""
import json, os, subprocess, sys, time, shutil, glob
ROOT = os.path.dirname(os.path.dirname(os.path.abspath(__file__)))
tag = sys.argv[1]
SCR = "/tmp/%s/repo" % tag
os.makedirs("/tmp/%s" % tag, exist_ok=True)
if not os.path.isdir(SCR):
    subprocess.run(["git", "-C", "/repo", "worktree", "add", "-q", "--detach", SCR, "HEAD"], check=True)
env = dict(os.environ, VERIF_REPO=SCR, VERIF_EVIDENCE_DIR="/tmp/%s/evidence" % tag, VERIF_WORK="/tmp/%s/work" % tag)
res_path = os.path.join(ROOT, "seeded", "results2.json")
for spec in sys.argv[2:]:
    i, props = spec.split(":")
    results = json.load(open(res_path)) if os.path.exists(res_path) else {}
    d = os.path.join(ROOT, "seeded", i)
    subprocess.run("git checkout -- .", shell=True, cwd=SCR)
    r = subprocess.run(["git", "apply", os.path.join(d, "patch.diff")], cwd=SCR, capture_output=True, text=True)
    if r.returncode != 0:
        print(i, "patch does not apply", r.stderr[:200]); continue
    entry = results.get(i, {"runs": {}})
    for p in props.split(","):
        t0 = time.time()
        pr = subprocess.run([os.path.join(ROOT, "check"), p, "--tier", "quick"], cwd=ROOT, env=env, capture_output=True, text=True)
        viol = [l for l in pr.stdout.splitlines() if l.startswith("VIOLATION")]
        und = [l for l in pr.stdout.splitlines() if l.startswith("UNDECIDED")]
        detail = [l.strip() for l in pr.stdout.splitlines() if l.startswith("  obligation")]
        entry["runs"][p] = {"exit": pr.returncode, "violations": viol[:6], "undecided": und[:4], "detail": detail[:6], "seconds": round(time.time() - t0)}
        print(i, p, "exit", pr.returncode, [x[:160] for x in detail[:2]], und[:1], flush=True)
    entry["detected"] = any(v["exit"] == 1 for v in entry["runs"].values())
    results[i] = entry
    json.dump(results, open(res_path, "w"), indent=1)
    subprocess.run("git checkout -- .", shell=True, cwd=SCR)
subprocess.run(["git", "-C", "/repo", "worktree", "remove", "--force", SCR])
shutil.rmtree("/tmp/%s" % tag, ignore_errors=True)
for p in glob.glob(os.path.join(ROOT, ".cache", "*tmp_%s_repo*" % tag)):
    shutil.rmtree(p, ignore_errors=True)
