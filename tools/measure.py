#!/usr/bin/env python3
"""measure.py <harness>...   run Kani harnesses once on /repo and record [status, ms] in kani/timings.json
(input of tools/mkchecks.py: the quick tier takes harnesses that succeed well inside the per-harness timeout)."""
import json, os, sys
HERE = os.path.dirname(os.path.abspath(__file__))
sys.path.insert(0, HERE)
import kani_run
args = sys.argv[1:]
timeout = 600
if args and args[0] == "--timeout":
    timeout = int(args[1]); args = args[2:]
names = args
reg = kani_run.registry()
names = [n for n in names if n in reg]
r = kani_run.run_kani(names, "/repo", os.path.join(kani_run.ROOT, ".work", "measure"), timeout_per=timeout)
p = os.path.join(kani_run.ROOT, "kani", "timings.json")
tim = json.load(open(p))
data = r["data"] or {}
for x in data.get("verification_results", {}).get("results", []):
    n = x["harness_id"].split("::")[-1]
    ms = x.get("duration_ms") or x.get("time_ms") or int(1000 * float(x.get("duration_s", 0) or 0))
    tim[n] = [x.get("status"), ms] if x.get("status") == "Success" else [x.get("status"), ms, "timeout %ds" % timeout]
    print(n, tim[n])
json.dump(tim, open(p, "w"), indent=0)
if not data:
    print(r["out"][-2000:])
