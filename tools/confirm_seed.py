#!/usr/bin/env python3
"""confirm_seed.py <pid> <mN> <append-file> <test-filter> [<stored-name>]   (SEED_BASE=/tmp/wt2 for the second round)
Confirm a seeded change in its scratch worktree /tmp/wt/<pid>: patch applies, existing suite passes with it,
demo fails with it and passes without it. On success copy to /verif/seeded/<pid>_<mN>/."""
import json, os, re, subprocess, sys, shutil
pid, m, target, filt = sys.argv[1:5]
base = os.environ.get("SEED_BASE", "/tmp/wt")
dstname = sys.argv[5] if len(sys.argv) > 5 else m
wt = "%s/%s" % (base, pid)
out = "%s/out-%s/%s" % (base, pid, m)
def sh(cmd, **kw):
    return subprocess.run(cmd, shell=True, cwd=wt, capture_output=True, text=True, **kw)
def counts(txt):
    p = f = 0
    for mm in re.finditer(r"test result: \w+\. (\d+) passed; (\d+) failed", txt):
        p += int(mm.group(1)); f += int(mm.group(2))
    return p, f
sh("git checkout -- . && git clean -fdq -e target")
r = sh("git apply %s/patch.diff" % out)
assert r.returncode == 0, r.stderr
r = sh("cargo test --workspace --no-fail-fast --offline -j 12 2>&1")
sp, sf = counts(r.stdout)
compiled = "could not compile" not in r.stdout
demo = open(os.path.join(out, "demo_test.rs")).read()
open(os.path.join(wt, target), "a").write("\n" + demo + "\n")
r1 = sh("cargo test --offline -j 12 -p savefile-test %s 2>&1" % filt)
wp, wf = counts(r1.stdout)
sh("git checkout -- .")
open(os.path.join(wt, target), "a").write("\n" + demo + "\n")
r2 = sh("cargo test --offline -j 12 -p savefile-test %s 2>&1" % filt)
np_, nf = counts(r2.stdout)
sh("git checkout -- . && git clean -fdq -e target")
ok = compiled and sf == 0 and sp >= 219 and wf > 0 and nf == 0 and np_ > 0
res = {"suite_with_patch": {"passed": sp, "failed": sf}, "demo_with_patch": {"passed": wp, "failed": wf},
       "demo_without_patch": {"passed": np_, "failed": nf}, "confirmed": ok}
print(pid, m, json.dumps(res))
if ok:
    dst = "/verif/seeded/%s_%s" % (pid, dstname)
    os.makedirs(dst, exist_ok=True)
    shutil.copy(os.path.join(out, "patch.diff"), dst)
    shutil.copy(os.path.join(out, "demo_test.rs"), dst)
    meta = json.load(open(os.path.join(out, "meta.json")))
    meta["property"] = pid
    meta["confirmed_by_me"] = res
    meta["what_i_ran"] = ["git apply patch.diff in scratch worktree /tmp/wt/%s" % pid,
        "cargo test --workspace --no-fail-fast --offline (with patch, no demo)",
        "append demo_test.rs to %s; cargo test -p savefile-test %s (with patch: fails; without patch: passes)" % (target, filt)]
    meta["demo_append_to"] = target
    meta["demo_filter"] = filt
    json.dump(meta, open(os.path.join(dst, "meta.json"), "w"), indent=1)
