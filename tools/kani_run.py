#!/usr/bin/env python3
"""Run Kani harnesses of the harness crate against the repo tree, classify, replay."""
import json
import os
import re
import shutil
import subprocess
import sys
import time

HERE = os.path.dirname(os.path.abspath(__file__))
ROOT = os.path.dirname(HERE)
HARNESS_SRC = os.path.join(ROOT, "kani", "harness")
CACHE = os.path.join(ROOT, ".cache")
JOBS = int(os.environ.get("VERIF_JOBS", "14"))


def registry():
    """Parse h(name, unwind, body, kind, props, fns, bound) lines of src/registry*.rs."""
    reg = {}
    for fn in sorted(os.listdir(os.path.join(HARNESS_SRC, "src"))):
        if not fn.startswith("registry"):
            continue
        txt = open(os.path.join(HARNESS_SRC, "src", fn)).read()
        mm = re.search(r"harnesses!\s*\{\s*(\w+)\s*,\s*(\w+)\s*;", txt)
        module = mm.group(1) if mm else "proofs"
        for m in re.finditer(r'^\s*h\(\s*(\w+)\s*,\s*(\d+)\s*,\s*([\w:<>, _]+?)\s*,\s*"(\w+)"\s*,\s*"([^"]*)"\s*,\s*"([^"]*)"\s*,\s*"([^"]*)"\s*\);', txt, re.M):
            reg[m.group(1)] = {
                "name": m.group(1), "module": module, "unwind": int(m.group(2)), "body": m.group(3), "complete": m.group(4) == "complete",
                "props": [p.strip() for p in m.group(5).split(",") if p.strip()],
                "functions": [f.strip() for f in m.group(6).split(";") if f.strip()], "bound": m.group(7)}
    return reg


def crate_dir(repo):
    """The harness crate is used in place; Cargo.toml is generated for the repo under test.
    A different repo path gets its own copy + target dir so cached artifacts never mix."""
    if os.path.abspath(repo) == "/repo":
        d = HARNESS_SRC
        target = os.path.join(CACHE, "kani-target")
    else:
        tag = re.sub(r"[^A-Za-z0-9]+", "_", os.path.abspath(repo)).strip("_")
        d = os.path.join(CACHE, "harness-" + tag)
        if os.path.isdir(d):
            shutil.rmtree(d)
        shutil.copytree(HARNESS_SRC, d, ignore=shutil.ignore_patterns("target", "Cargo.toml", "Cargo.lock"))
        target = os.path.join(CACHE, "kani-target-" + tag)
    tmpl = open(os.path.join(HARNESS_SRC, "Cargo.toml.in")).read().replace("@REPO@", os.path.abspath(repo))
    cur = None
    try:
        cur = open(os.path.join(d, "Cargo.toml")).read()
    except FileNotFoundError:
        pass
    if cur != tmpl:
        with open(os.path.join(d, "Cargo.toml"), "w") as f:
            f.write(tmpl)
    lock_src = os.path.join(repo, "Cargo.lock")
    if os.path.exists(lock_src) and not os.path.exists(os.path.join(d, "Cargo.lock")):
        shutil.copy(lock_src, os.path.join(d, "Cargo.lock"))
    return d, target


def env():
    e = dict(os.environ)
    e["CARGO_NET_OFFLINE"] = "true"
    e.pop("RUSTUP_TOOLCHAIN", None)
    return e


def run_kani(names, repo, workdir, timeout_per=600, extra=None, jobs=None):
    d, target = crate_dir(repo)
    os.makedirs(workdir, exist_ok=True)
    out_json = os.path.join(workdir, "kani_export.json")
    if os.path.exists(out_json):
        os.remove(out_json)
    cmd = ["cargo", "kani", "-Z", "stubbing", "-Z", "unstable-options", "--output-format", "terse",
           "--export-json", out_json, "--harness-timeout", "%ds" % timeout_per, "-j", str(jobs or JOBS), "--exact"]
    for n in names:
        cmd += ["--harness", registry()[n]["module"] + "::" + n]
    if extra:
        cmd += extra
    e = env()
    e["CARGO_TARGET_DIR"] = target
    t0 = time.time()
    total_timeout = max(1800, timeout_per * (1 + len(names) // max(1, (jobs or JOBS))) + 600)
    try:
        p = subprocess.run(cmd, cwd=d, env=e, capture_output=True, text=True, timeout=total_timeout)
        out = p.stdout + "\n" + p.stderr
    except subprocess.TimeoutExpired as ex:
        out = "TIMEOUT\n" + (ex.stdout or "") if isinstance(ex.stdout, str) else "TIMEOUT"
    with open(os.path.join(workdir, "kani_output.txt"), "w") as f:
        f.write(out)
    data = None
    try:
        data = json.load(open(out_json))
    except Exception:
        pass
    return {"cmd": "cd %s && CARGO_TARGET_DIR=%s %s" % (d, target, " ".join(cmd)), "out": out, "data": data,
            "seconds": time.time() - t0, "dir": d, "target": target}


def tree_key(repo):
    """sha256 over everything a Kani result depends on: the library sources, the harness crate, the lock file,
    the tool versions. A harness result is reused only under an identical key (the verifier is deterministic)."""
    import hashlib
    h = hashlib.sha256()
    roots = [os.path.join(repo, d) for d in ("savefile/src", "savefile-derive/src", "savefile-abi/src")] + [os.path.join(HARNESS_SRC, "src")]
    files = [os.path.join(repo, f) for f in ("Cargo.lock", "savefile/Cargo.toml", "savefile-derive/Cargo.toml", "savefile-abi/Cargo.toml",
                                              "savefile/build.rs", "savefile-abi/build.rs")]
    files += [os.path.join(HARNESS_SRC, "Cargo.toml.in"), os.path.abspath(__file__)]
    for r in roots:
        for dp, dn, fn in sorted(os.walk(r)):
            dn.sort()
            for f in sorted(fn):
                # native-only sources are compiled out under Kani (cfg(not(kani))): they cannot change a Kani result
                if r.startswith(HARNESS_SRC) and (f.startswith("native_") or os.path.join(dp, f).endswith(os.path.join("bin", "replay.rs"))):
                    continue
                files.append(os.path.join(dp, f))
    for f in files:
        try:
            data = open(f, "rb").read()
        except OSError:
            data = b"<missing>"
        h.update(f.encode() + b"\0" + hashlib.sha256(data).digest())
    h.update(b"kani-0.68.0/cbmc-6.11.0")
    return h.hexdigest()


def cache_load(key):
    p = os.path.join(CACHE, "kani-results", key + ".json")
    try:
        return json.load(open(p))
    except Exception:
        return {}


def cache_store(key, entries):
    d = os.path.join(CACHE, "kani-results")
    os.makedirs(d, exist_ok=True)
    cur = cache_load(key)
    cur.update(entries)
    tmp = os.path.join(d, key + ".json.tmp%d" % os.getpid())
    json.dump(cur, open(tmp, "w"))
    os.replace(tmp, os.path.join(d, key + ".json"))


def run_harnesses(groups, repo, workdir, tier="quick", seed=0):
    """groups: list of harness-name prefixes or exact names (from checks.json)."""
    reg = registry()
    names = []
    for g in groups:
        if g.endswith("*"):
            names += [n for n in sorted(reg) if n.startswith(g[:-1])]
        elif g in reg:
            names.append(g)
        else:
            return {"cmd": "", "obligations": [], "undecided": ["unknown harness %s (not in registry)" % g],
                    "assumptions": [], "functions": []}
    names = list(dict.fromkeys(names))
    res = {"cmd": "", "obligations": [], "undecided": [], "assumptions": [
        "kani: std::hash::RandomState::new stubbed by fixed keys (hash iteration order is not part of any property)",
        "kani: alloc::fmt::format stubbed by String::new() (error-message text is not part of any property)",
    ], "functions": [], "solver_s": 0.0}
    if not names:
        return res
    key = tree_key(repo)
    res["tree_key"] = key
    cached = {} if os.environ.get("VERIF_NO_CACHE") else cache_load(key)
    todo = [n for n in names if n not in cached]
    results, details, stats = {}, {}, {}
    for n in names:
        if n in cached:
            results[n], details[n], stats[n] = cached[n]["result"], cached[n]["details"], cached[n]["stats"]
    res["cached"] = [n for n in names if n in cached]
    if todo:
        # the thorough tier runs the memory-hungry harnesses: fewer parallel CBMC processes (14 at once were measured to
        # get some of them killed for lack of memory, which shows up as an undetermined "Failure")
        r = run_kani(todo, repo, workdir, timeout_per=int(os.environ.get("VERIF_HARNESS_TIMEOUT", "900" if tier == "quick" else "1800")),
                     jobs=None if tier == "quick" else int(os.environ.get("VERIF_JOBS_THOROUGH", "6")))
        res["cmd"] = r["cmd"]
        data = r["data"]
        if data is None:
            tail = r["out"][-1500:]
            kind = "build failure" if "error" in r["out"] and "could not compile" in r["out"] else "no result file"
            res["undecided"].append("kani produced no results (%s): %s" % (kind, tail.replace("\n", " | ")))
            return res
        if "- Stub: alloc :: fmt :: format" not in r["out"] or "- Stub: std :: hash :: RandomState :: new" not in r["out"]:
            res["undecided"].append("mandatory stubs not reported applied")
        for x in data.get("verification_results", {}).get("results", []):
            x = dict(x)
            x["checks"] = [c for c in x.get("checks", []) if c.get("status") not in ("Success", "Unreachable", "Satisfied", "SUCCESS", "UNREACHABLE", "SATISFIED")][:40]
            results[x["harness_id"].split("::")[-1]] = x
        for x in data.get("property_details", []):
            details[x["harness_id"].split("::")[-1]] = x["property_details"]
        for x in data.get("cbmc", []):
            stats[x["harness_id"].split("::")[-1]] = (x.get("cbmc_stats") or {})
        store = {}
        for n in todo:
            if n in results and results[n].get("status") == "Success" and (details.get(n) or {}).get("satisfied", 0) >= 1:
                store[n] = {"result": results[n], "details": details.get(n, {}), "stats": stats.get(n, {})}
        if store:
            cache_store(key, store)
    else:
        res["cmd"] = "(all %d harness results reused from cache key %s)" % (len(names), key[:16])
    for n in names:
        h = reg[n]
        for fn in h["functions"]:
            res["functions"].append({"engine": "kani", "harness": n, "item": fn,
                                     "complete": h["complete"], "bound": h["bound"]})
        st = stats.get(n) or {}
        res["solver_s"] += float(st.get("runtime_solver_s", 0) or 0) + float(st.get("runtime_symex_s", 0) or 0)
        ob = {"name": "kani::" + n, "engine": "kani/cbmc", "complete": h["complete"], "bound": h["bound"], "harness": n}
        if n not in results:
            res["undecided"].append("harness %s: no result (timeout or crash)" % n)
            ob["status"] = "undecided"
            res["obligations"].append(ob)
            continue
        x = results[n]
        det = details.get(n, {})
        failed = [c for c in x.get("checks", []) if c.get("status") not in ("Success", "Unreachable", "Satisfied", "SUCCESS", "UNREACHABLE", "SATISFIED")]
        if x["status"] == "Success":
            if det.get("satisfied", 0) < 1:
                res["undecided"].append("harness %s: vacuity cover not satisfied" % n)
                ob["status"] = "undecided"
            elif det.get("total_properties", 0) < 1:
                res["undecided"].append("harness %s: zero checks generated" % n)
                ob["status"] = "undecided"
            else:
                ob["status"] = "discharged"
                ob["checks"] = det.get("total_properties", 0)
            res["obligations"].append(ob)
            continue
        # failed: distinguish real failures from undetermined / unwinding
        real = [c for c in failed if c.get("status") in ("Failure", "FAILURE")]
        unwind = [c for c in real if "unwinding assertion" in c.get("description", "")]
        others = [c for c in real if "unwinding assertion" not in c.get("description", "")]
        unsupported = [c for c in others if "is not currently supported by Kani" in c.get("description", "") or c.get("category") == "unsupported_construct"]
        if not real or (unwind and not others):
            res["undecided"].append("harness %s: %s" % (n, "unwinding bound too small" if unwind else
                                                         "no failed check but status %s (timeout / undetermined)" % x["status"]))
            ob["status"] = "undecided"
            res["obligations"].append(ob)
            continue
        if unsupported and len(unsupported) == len(others):
            res["undecided"].append("harness %s: unsupported construct reached: %s" % (n, unsupported[0].get("description", "")[:200]))
            ob["status"] = "undecided"
            res["obligations"].append(ob)
            continue
        ob["status"] = "failed"
        ob["detail"] = "; ".join("%s @ %s:%s in %s" % (c.get("description", ""), c.get("location", {}).get("file", "?"),
                                                       c.get("location", {}).get("line", "?"), c.get("function", "?")) for c in others[:4])
        ob["failed_checks"] = [c.get("description", "") for c in others]
        ob["verifier_output"] = json.dumps(others[:8], indent=1)
        ob["assert_only"] = all(c.get("category") == "assertion" or "assertion failed" in c.get("description", "") for c in others)
        res["obligations"].append(ob)
    return res


def attach_counterexample(ob, repo, workdir):
    """Counterexample + replay on the real code for a failed Kani obligation. Returns False when an
    assertion-only failure does not replay natively (then the result is undecided, not a violation)."""
    cx = find_counterexample(ob["harness"], repo, os.path.join(workdir, "cx_" + ob["harness"]))
    if not cx:
        return True
    ob["counterexample"] = cx["counterexample"]
    ob["replayed"] = cx["replayed"]
    ob["replay_result"] = cx["replay_result"]
    if cx["replayed"] and not cx["replay_result"].get("reproduced") and ob.get("assert_only"):
        return False
    return True


def parse_concrete_vals(out):
    """All concrete_vals lists of the unit tests Kani prints with --concrete-playback=print (one test per
    failed check; the same harness may have several)."""
    res = []
    for m in re.finditer(r"let concrete_vals: Vec<Vec<u8>> = vec!\[(.*?)\];", out, re.S):
        vals = []
        for vm in re.finditer(r"vec!\[([0-9,\s]*)\]", m.group(1)):
            nums = [int(x) for x in vm.group(1).replace("\n", " ").split(",") if x.strip()]
            vals.append(nums)
        if vals not in res:
            res.append(vals)
    return res


def build_replay(repo, d, target):
    e = env()
    e["CARGO_TARGET_DIR"] = target + "-native"
    p = subprocess.run(["cargo", "build", "--offline", "--bin", "replay", "--features", "xnative"], cwd=d, env=e, capture_output=True, text=True, timeout=1800)
    if p.returncode != 0:
        return None, p.stderr[-2000:]
    return os.path.join(target + "-native", "debug", "replay"), ""


def replay_concrete(name, vals, repo, workdir):
    d, target = crate_dir(repo)
    os.makedirs(workdir, exist_ok=True)
    exe, err = build_replay(repo, d, target)
    if exe is None:
        return {"reproduced": False, "error": "replay binary did not build: " + err}
    arg = ",".join("".join("%02x" % b for b in v) for v in vals)
    p = subprocess.run([exe, name, arg], capture_output=True, text=True, timeout=300)
    return {"reproduced": p.returncode not in (0, 3), "exit_code": p.returncode, "diverged": p.returncode == 3,
            "stdout": p.stdout[-1500:], "stderr": p.stderr[-2500:],
            "cmd": "%s %s %s" % (exe, name, arg)}


def find_counterexample(name, repo, workdir):
    reg = registry()
    if name not in reg:
        return None
    r = run_kani([name], repo, workdir, extra=["-Z", "concrete-playback", "--concrete-playback=print"], jobs=1)
    cands = parse_concrete_vals(r["out"])
    if not cands:
        return None
    last = None
    for vals in cands[:6]:
        rr = replay_concrete(name, vals, repo, workdir)
        last = {"counterexample": {"harness": name, "concrete_vals": vals}, "replayed": True, "replay_result": rr}
        if rr.get("reproduced"):
            return last
    return last


if __name__ == "__main__":
    print(json.dumps(registry(), indent=1)[:3000])
