#!/usr/bin/env python3
"""Run one Verus unit: extract from the repo, verify, classify every outcome.

Outcome classes (DESIGN.md section 3.2):
  ok         every locked function verified, every canary failed as it must
  violation  an obligation of a locked function fails with a *verification* error
  undecided  lost anchor, unsupported construct / compile error, rlimit, tool crash
"""
import json
import os
import re
import subprocess
import sys
import time

HERE = os.path.dirname(os.path.abspath(__file__))
ROOT = os.path.dirname(HERE)
sys.path.insert(0, HERE)
import extract  # noqa: E402

VERIF_ERRORS = (
    "postcondition not satisfied",
    "precondition not satisfied",
    "possible arithmetic underflow/overflow",
    "invariant not satisfied",
    "assertion failed",
    "possible division by zero",
    "decreases not satisfied",
    "could not prove termination",
    "possible bit shift underflow/overflow",
    "unable to prove assertion safely",
    "cannot show",
    "recommendation not met",
    "failed to prove",
    "possible panic",
    "unreachable",
)
UNDECIDED_MARKERS = ("Resource limit (rlimit) exceeded", "rlimit", "internal error", "panicked at", "thread 'rustc'")


def fn_at_line(lines, lineno):
    """Name of the enclosing fn for a 1-based line in the emitted file (nearest preceding
    `fn NAME` at any indentation)."""
    pat = re.compile(r"\bfn\s+([A-Za-z_][A-Za-z0-9_]*)")
    for i in range(min(lineno, len(lines)) - 1, -1, -1):
        m = pat.search(lines[i])
        if m and not lines[i].lstrip().startswith("//"):
            return m.group(1)
    return "?"


def parse_errors(stderr, emitted_lines, line_map, rs_name):
    """Return list of dict(kind, msg, line, fn, selector, snippet)."""
    errs = []
    blocks = re.split(r"\n(?=error|note|warning)", stderr)
    for b in blocks:
        m = re.match(r"(error(?:\[E\d+\])?): (.*)", b)
        if not m:
            continue
        msg = m.group(2).split("\n")[0]
        if msg.startswith("aborting due to"):
            continue
        loc = re.search(r"--> %s:(\d+):(\d+)" % re.escape(rs_name), b)
        line = int(loc.group(1)) if loc else 0
        is_verif = m.group(1) == "error" and any(msg.startswith(v) or v in msg for v in VERIF_ERRORS)
        if any(u in b for u in UNDECIDED_MARKERS):
            is_verif = False
        selector = None
        for first, last, sel in line_map:
            if first <= line <= last:
                selector = sel
        if selector is None:
            # the primary location is a contract stated in a trait (environment text): name the extracted item
            # whose body the verifier points to in the same message (first gutter line inside an item span)
            for g in re.findall(r"^\s*(\d+) \|", b, flags=re.M):
                hit = [sel for first, last, sel in line_map if first <= int(g) <= last]
                if hit:
                    selector = hit[-1]
                    break
        errs.append({
            "verification_error": is_verif,
            "msg": msg,
            "line": line,
            "fn": fn_at_line(emitted_lines, line) if line else "?",
            "selector": selector,
            "text": b.strip()[:1500],
        })
    return errs


def run_unit(unit, repo, workdir, rlimit=None, timeout=900):
    """Returns dict with keys: status(ok|violation|undecided), verified(list), failed(list of
    errs), canaries_ok, items(meta), assumptions(list), seconds, smt_ms, detail"""
    os.makedirs(workdir, exist_ok=True)
    vrs = os.path.join(ROOT, "verus", "units", unit, "contracts.vrs")
    rs = os.path.join(workdir, unit + ".rs")
    meta_path = os.path.join(workdir, unit + ".meta.json")
    res = {"unit": unit, "status": "undecided", "verified": [], "failed": [], "detail": "", "items": [],
           "assumptions": [], "seconds": 0.0, "smt_ms": 0, "cmd": ""}
    t0 = time.time()
    try:
        meta = extract.extract_unit(vrs, repo, rs, meta_path)
    except extract.LostAnchor as e:
        res["detail"] = "lost anchor: %s" % e
        return res
    except Exception as e:  # extractor crash = undecided, never an alarm
        res["detail"] = "extractor error: %r" % (e,)
        return res
    res["items"] = meta["items"]
    cmd = ["verus", os.path.basename(rs), "--output-json", "--time", "--multiple-errors", "4"]
    if rlimit:
        cmd += ["--rlimit", str(rlimit)]
    res["cmd"] = "cd %s && %s" % (workdir, " ".join(cmd))
    try:
        p = subprocess.run(cmd, cwd=workdir, capture_output=True, text=True, timeout=timeout)
    except subprocess.TimeoutExpired:
        res["detail"] = "verus timeout after %ds" % timeout
        return res
    res["seconds"] = time.time() - t0
    with open(os.path.join(workdir, unit + ".stderr.txt"), "w") as f:
        f.write(p.stderr)
    with open(os.path.join(workdir, unit + ".stdout.json"), "w") as f:
        f.write(p.stdout)
    emitted_lines = open(rs).read().split("\n")
    # assumptions: mechanical scan of the emitted file
    assumptions = []
    for i, ln in enumerate(emitted_lines):
        if "external_body" in ln or "assume_specification" in ln or re.search(r"\bassume\s*\(", ln) or "admit()" in ln \
                or "external_type_specification" in ln or "#[verifier::external" in ln:
            # name the following fn / item
            name = ""
            for j in range(i, min(i + 6, len(emitted_lines))):
                m = re.search(r"(?:fn|struct|enum)\s+([A-Za-z_][A-Za-z0-9_]*)|assume_specification.*?\[(.*?)\]", emitted_lines[j])
                if m:
                    name = m.group(1) or m.group(2)
                    break
            assumptions.append("%s: %s" % (unit, (ln.strip() + " " + name).strip()))
        # axioms and uninterpreted specification functions are assumptions as well
        m = re.search(r"\baxiom\s+fn\s+([A-Za-z_][A-Za-z0-9_]*)", ln)
        if m:
            assumptions.append("%s: axiom %s" % (unit, m.group(1)))
        m = re.search(r"\buninterp\s+spec\s+fn\s+([A-Za-z_][A-Za-z0-9_]*)", ln)
        if m:
            assumptions.append("%s: uninterpreted spec fn %s" % (unit, m.group(1)))
    res["assumptions"] = sorted(set(assumptions))
    try:
        out = json.loads(p.stdout)
    except Exception:
        res["detail"] = "verus produced no JSON (crash?): " + p.stderr[-800:]
        return res
    vr = out.get("verification-results", {})
    errs = parse_errors(p.stderr, emitted_lines, meta["line_map"], os.path.basename(rs))
    funcs = {}
    try:
        for mod in out["times-ms"]["smt"]["smt-run-module-times"]:
            for fb in mod.get("function-breakdown", []):
                name = fb["function"].split("::", 1)[1] if "::" in fb["function"] else fb["function"]
                funcs[name] = fb
                res["smt_ms"] += fb.get("time", 0)
    except Exception:
        pass
    res["n_verified"] = vr.get("verified", 0)
    res["n_errors"] = vr.get("errors", 0)
    compile_errs = [e for e in errs if not e["verification_error"]]
    verif_errs = [e for e in errs if e["verification_error"]]
    if vr.get("encountered-vir-error") or (compile_errs and not vr.get("verified")):
        res["detail"] = "verus rejected the unit (unsupported construct / type error): " + \
            "; ".join(e["msg"] for e in compile_errs[:3])
        res["failed"] = compile_errs
        return res
    if compile_errs:
        # errors that are not verification errors (rlimit, crash) => undecided
        res["detail"] = "non-verification error: " + "; ".join(e["msg"] for e in compile_errs[:3])
        res["failed"] = compile_errs
        return res
    canary_fail = [e for e in verif_errs if e["fn"].startswith("canary_")]
    real_fail = [e for e in verif_errs if not e["fn"].startswith("canary_")]
    canaries = [m.group(1) for m in (re.search(r"\bfn\s+(canary_\w+)", ln) for ln in emitted_lines) if m]
    failed_canaries = set(e["fn"] for e in canary_fail)
    res["verified"] = sorted(n for n, fb in funcs.items() if fb.get("success"))
    res["canaries"] = canaries
    res["failed"] = real_fail
    if set(canaries) - failed_canaries:
        res["detail"] = "VACUITY: canary verified although it must fail: %s" % sorted(set(canaries) - failed_canaries)
        res["status"] = "undecided"
        return res
    if real_fail:
        res["status"] = "violation"
        return res
    if not vr.get("verified"):
        res["detail"] = "zero functions verified"
        return res
    if vr.get("errors", 0) != len(set(e["fn"] for e in canary_fail)) and vr.get("errors", 0) > len(canaries):
        res["detail"] = "error count mismatch (%s errors, %d canaries)" % (vr.get("errors"), len(canaries))
        return res
    res["status"] = "ok"
    return res


if __name__ == "__main__":
    r = run_unit(sys.argv[1], sys.argv[2] if len(sys.argv) > 2 else "/repo", sys.argv[3] if len(sys.argv) > 3 else os.path.join(ROOT, ".work", "manual"))
    print(json.dumps({k: v for k, v in r.items() if k not in ("items",)}, indent=1)[:6000])
