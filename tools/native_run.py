#!/usr/bin/env python3
"""Native bounded stand-in checks: small-scope enumeration of harness bodies on the real code (compiled natively).
Used where neither verifier reaches: heap-heavy schema code (CBMC does not terminate) and as a fallback when a
refactoring takes a function outside Verus' subset. Always labelled BOUNDED, never counted as proved."""
import json, os, re, subprocess, sys, time
HERE = os.path.dirname(os.path.abspath(__file__))
sys.path.insert(0, HERE)
import kani_run


def registry():
    txt = ""
    for fn in sorted(os.listdir(os.path.join(kani_run.HARNESS_SRC, "src"))):
        if fn.endswith(".rs"):
            txt += open(os.path.join(kani_run.HARNESS_SRC, "src", fn)).read() + "\n"
    reg = {}
    for m in re.finditer(r'//\s*n\((\w+),\s*"([^"]*)",\s*"([^"]*)",\s*"([^"]*)"\);', txt):
        reg[m.group(1)] = {"props": [p.strip() for p in m.group(2).split(",")], "functions": [f.strip() for f in m.group(3).split(";")], "bound": m.group(4)}
    return reg


def run(names, repo, workdir, tier="quick"):
    res = {"obligations": [], "undecided": [], "functions": [], "cmd": ""}
    if not names:
        return res
    reg = registry()
    d, target = kani_run.crate_dir(repo)
    exe, err = kani_run.build_replay(repo, d, target)
    if exe is None:
        res["undecided"].append("native harness binary did not build: " + err[-400:].replace("\n", " | "))
        return res
    res["cmd"] = "%s --enum <harness>" % exe
    todo = []
    for n in names:
        if n not in reg:
            res["undecided"].append("unknown native harness " + n)
            continue
        for fn in reg[n]["functions"]:
            res["functions"].append({"engine": "native-enumeration", "harness": n, "item": fn, "complete": False, "bound": reg[n]["bound"]})
        todo.append(n)

    def one(n):
        t0 = time.time()
        try:
            # thorough tier: wider value domains per draw and a ten times larger case budget
            e = dict(os.environ, RUST_BACKTRACE="0")
            args = [exe, "--enum", n]
            if tier == "thorough":
                e["VERIF_ENUM_WIDE"] = "1"
                args.append("20000000")
            p = subprocess.run(args, capture_output=True, text=True, timeout=1500 if tier == "quick" else 5400, env=e)
        except subprocess.TimeoutExpired:
            return n, None, "native harness %s: timeout" % n
        ob = {"name": "native::" + n, "engine": "native-enumeration", "complete": False, "bound": reg[n]["bound"], "seconds": round(time.time() - t0, 2)}
        m = re.search(r"ENUM-COMPLETED harness=\w+ cases=(\d+) rejected_by_assumption=(\d+) exhausted=(\w+)", p.stdout)
        f = re.search(r"ENUM-FAILED harness=\w+ case=(\d+) digits=(\[.*?\]) message=(.*)", p.stdout)
        if m and p.returncode == 0 and int(m.group(1)) > 0:
            ob["status"] = "discharged"
            ob["cases"] = int(m.group(1))
            ob["rejected"] = int(m.group(2))
            ob["samples"] = [{"harness": n, "choice_vector": x} for x in re.findall(r"ENUM-SAMPLE harness=\w+ choice_vector=(\[.*?\])", p.stdout)][:3]
            ob["bound"] += "; %s combinations executed on the real code (exhausted=%s%s)" % (m.group(1), m.group(3), "; wide value domains" if tier == "thorough" else "")
        elif f:
            ob["status"] = "failed"
            ob["detail"] = "native enumeration: case #%s fails: %s" % (f.group(1), f.group(3).strip())
            ob["failed_checks"] = [f.group(3).strip()]
            ob["counterexample"] = {"harness": n, "enum_digits": f.group(2)}
            ob["replayed"] = True
            ob["replay_result"] = {"reproduced": True, "cmd": "%s --enum %s" % (exe, n), "stdout": p.stdout[-600:]}
            ob["verifier_output"] = p.stdout[-800:]
        else:
            ob["status"] = "undecided"
            return n, ob, "native harness %s: unexpected output (exit %d): %s" % (n, p.returncode, (p.stdout + p.stderr)[-300:].replace("\n", " | "))
        return n, ob, None

    from concurrent.futures import ThreadPoolExecutor
    with ThreadPoolExecutor(max_workers=8) as ex:
        for n, ob, err in ex.map(one, todo):
            if err:
                res["undecided"].append(err)
            if ob:
                res["obligations"].append(ob)
    return res
