#!/usr/bin/env python3
"""Generate checks.json: which Verus units and Kani harnesses decide which property, per tier.
Quick-tier Kani harnesses are those measured (kani/timings.json, 14 parallel jobs) to finish well inside the
per-harness timeout; slower ones run in the thorough tier only. Harness classes that never finished (schema_*,
failw*) are not registered (stated in DESIGN.md)."""
import json, re, os, re, sys
ROOT = os.path.dirname(os.path.dirname(os.path.abspath(__file__)))
sys.path.insert(0, os.path.join(ROOT, "tools"))
import kani_run
reg = kani_run.registry()
tim = json.load(open(os.path.join(ROOT, "kani", "timings.json")))
KNOWN_FAIL = {"fam_packed_EExplicit", "fam_vec_EExplicit", "fam_packed_SWithEnum", "fam_vec_SWithEnum", "fam_rt_SWithEnum",
              "fam_packed_SUpperBound", "fam_older_SUpperBound", "fam_rt_SUpperBound", "fam_vec_SUpperBound",
              "mal_vec_bool", "mal_vec_char", "mal_array_bool"}
NEVER = ("schema_", "x_")

def pick(prefixes, prop, only=None):
    quick, thorough = [], []
    for n in sorted(reg):
        if not any(n.startswith(p) for p in prefixes) or any(n.startswith(x) for x in NEVER):
            continue
        if only and not only(n):
            continue
        if prop not in reg[n]["props"]:
            continue
        st, ms = tim.get(n, ["?", 10**9])[:2]
        if (st == "Success" and ms < 70000) or n in KNOWN_FAIL:
            quick.append(n)
        elif st == "Success" and ms < 900000:
            # thorough tier (per-harness timeout 1500 s): only harnesses MEASURED to finish with margin -- a harness that
            # may time out would make the check undecided (exit 2) on the unchanged tree
            thorough.append(n)
    return quick, thorough

P = {}
def add(pid, verus, prefixes, only=None, **kw):
    q, t = pick(prefixes, pid, only)
    P[pid] = dict(level="proof", verus=verus, kani=q, kani_thorough=t, **kw)

TB = ["Verus environment assumptions (std::io Write/Read, byteorder, vstd utf8): verus/env/*.vrs", "Kani stubs: RandomState::new, alloc::fmt::format"]
add("C01", ["v_codec", "v_codec_ptr"], ["leaf_", "fam_rt_", "file_"],
    level_text="Round trip proved (a) by Verus for the real primitive readers/writers and the generic container codecs (Option, Result, Box, Rc, Arc, tuples, String, (), regular_deserialize_vec) as lemma_roundtrip over their contracts, for all values and all nestings; (b) by loop-free Kani harnesses on the compiled crates for every leaf type and every member of the derive family (all values), and for the schema-less container. Bounded: Vec<T> bodies (length 2), definitions (finite family).",
    level_note="Compressed and encrypted containers are outside both verifiers (bzip2 is C code; ring is assembly): only bounded native runs cover them. Trusted: Verus I/O environment, extraction rules, Kani/CBMC, two Kani stubs.",
    technique="Verus function contracts + round-trip lemmas on extracted code; Kani assume/assert contracts on monomorphic wrappers",
    assumptions=["compressed (bzip2) and encrypted (ring) containers: no proof, bounded native runs only", "derive macro generators verified only through their output on the generated family"], trusted_base=TB)
add("C02", ["v_codec", "v_codec_ptr"], ["leaf_", "fam_rt_", "file_SPlain", "file_EData", "fam_older_"],
    level_text="Every write_*/serialize function under contract is proved to append exactly the documented encoding (absolute bytes from an independent specification / reference encoder): Verus for primitives and generic containers (all values, unbounded), Kani per leaf and per derive-family member incl. header layout.",
    level_note="Reference encoder and enc spec functions are the oracle (written from the format documentation). Definitions: finite family.",
    technique="Verus postconditions `out == old ++ enc(v)`; Kani harnesses against an independent reference encoder", trusted_base=TB)
add("C03", ["v_derive_arith"], ["evo_"],
    level_text="For each generated evolution history and each pair i<j: bytes written by the version-i definition (cross-checked with the reference encoding) load in the version-j definition with retained fields equal, removed fields skipped, added fields defaulted, converted fields converted -- for all values (Kani, loop-free => complete per pair).",
    level_note="Bounded over definitions: 6 histories (add with default_val/default_fn/Default, Removed, AbiRemoved, versions_as conversion, add-then-convert, add-then-remove, enum variant appended).",
    technique="Kani contract harnesses over a generated history family", trusted_base=TB, programs=20)
add("C04", ["v_derive_arith"], ["fam_packed_", "fam_vec_", "packed_tuples_"],
    level_text="Decision soundness: Packed::repr_c_optimization_safe(v).is_yes() ==> size_of == |enc| and memory image == field-wise encoding, for all values and all versions <= current, per family member (Kani, complete). Transparency: Vec<T> bytes == length ++ element encodings and loads element-wise equal (bounded: length 2). min_safe_version arithmetic proved by Verus.",
    level_note="Bounded over definitions; Vec length 2. The bulk paths of Box<[T]>, Arc<[T]>, [T;N], ArrayVec (which share the Packed decision) are covered only by the bounded native runs nbulk_<family type>.",
    technique="Kani contract harnesses per type; Verus contract on AttrsResult::min_safe_version", trusted_base=TB)
add("C05", ["v_diff"], ["hdr_"],
    level_text="diff_schema(a,b) is None <==> wire_equiv(a,b) for all schema trees of the serialisable fragment (Verus, unbounded, real function text); header gate (magic, library-format version, data version, before any payload byte) by Kani for all header values.",
    level_note="Trait method tables (diff_abi_def) abstract in the Verus unit. Pair matrix over concrete types not run.",
    technique="Verus contracts + loop invariants on extracted diff_schema family; Kani header harnesses", trusted_base=TB)
add("C06", ["v_codec", "v_schemacodec"], ["mal_"],
    level_text="For fixed-size targets every input of every length up to the encoded size is covered (Kani, complete): no panic, no overflow, no memory-safety failure, returned values valid (bool/char bit patterns, enum tags), consumed length consistent; bulk paths of Vec/array/ArrayVec with arbitrary declared lengths; SystemTime/Duration arithmetic.",
    level_note="Variable-size targets (String, maps, schema bytes, BitVec) are not covered; stack exhaustion not decidable.",
    technique="Kani harnesses over fully symbolic input bytes", trusted_base=TB)
add("C07", ["v_codec", "v_codec_ptr", "v_crypto"], ["trunc_"],
    level_text="lemma_prefix (Verus): no strict prefix of an encoding is accepted, generically for the codec impls under contract; Kani: for each container-family type, every cut offset of every saved schema-less file is rejected (symbolic value and cut).",
    level_note="Compressed / encrypted containers: bounded native runs only (real bzip2 / ring).",
    technique="Verus lemma over decoder contracts; Kani truncation harnesses", trusted_base=TB)
add("C08", ["v_codec", "v_crypto"], ["shortw_", "chunk1_", "chunk3_", "flushfail_", "failw"],
    level_text="Every write_*/serialize under Verus contract has the Err-clause old ⊑ new ⊑ old ++ enc for every behaviour of the underlying writer (all failure offsets), io::Error maps to SavefileError::IOError, no panic; Kani: short writes (1 byte/call) and chunked reads (1 and 3 bytes/call) give identical bytes/values on the real container code.",
    level_note="Hard-failure schedules through save_impl and derive output are not decided by Kani (CBMC does not terminate on io::Error paths) and CryptoWriter is outside Verus' subset: both are covered only by bounded native fault-injection runs.",
    technique="Verus error-path postconditions; Kani chunking harnesses", trusted_base=TB)
add("C09", [], ["abi_"],
    level_text="Callee contract and caller contract of the real macro-generated trampolines for one exported trait (plain args, versioned struct by value/return, reference by pointer or serialized): all argument values; ownership (drop exactly once).",
    level_note="Bounded over definitions (one trait, three methods) for the proofs. Connection set-up, closures and boxed closures in both directions, drop counts and panic transport are covered only by bounded native end-to-end runs (two interface versions); futures and the FlexBuffer spill path are not covered.",
    technique="Kani contract harnesses on generated trampolines", trusted_base=TB)
add("C10", [], ["abi_callee_pt", "abi_caller_pt", "abi_callee_add", "abi_caller_add"],
    level_text="Arguments and return values are transmitted in the negotiated version's format (callee built at version 1, negotiated 0 and 1): retained fields unchanged, unknown fields defaulted.",
    level_note="Negotiation (min of versions), analyze_and_create, methods present on one side only and rejection of incompatible signatures are covered only by bounded native end-to-end runs (one interface in versions 0 and 1).",
    technique="Kani contract harnesses on generated trampolines", trusted_base=TB)
add("C11", ["v_layout"], ["abi_callee_ref", "abi_caller_ref"],
    level_text="layout_compatible(a,b) ==> same_layout(a,b) and arg_layout_compatible == Ok(true) ==> identical native layout or trait-like, for all schema pairs (Verus, unbounded); an argument travels as a pointer iff its mask bit is set (Kani on trampolines).",
    level_note="Mask computation in analyze_and_create: bounded native runs only. Truthfulness of the layout facts the derive macro records is not covered; other compilers are not decidable here.",
    technique="Verus contracts on extracted layout_compatible family", trusted_base=TB)
add("C14", ["v_crypto"], [],
    level_text="CryptoReader::read (real text, real block size) verified for all inputs, chunkings and buffer sizes against the frame contract: plaintext is handed out only from frames read completely, with a declared length within bounds, that authenticated under the next nonce, in order; a short count only at a clean end between frames; no panic, no overflow, no out-of-bounds. load_encrypted_file: key == SHA-256 of exactly the password bytes, missing file / short nonce are errors, no reachable panic. Relative to the IDEAL-AEAD contract for ring (unforgeability and SHA-256 collision resistance are assumptions).",
    level_note="Not proved: CryptoWriter::{write,flush} (local &mut aliasing outside Verus' subset; bounded native runs with the real ring code only), RandomNonceSequence::advance, termination of read under endless Interrupted. The property's 'any modification yields an error' follows from the contract only under the ideal-AEAD assumption.",
    technique="Verus function contract + loop invariants on the extracted CryptoReader::read; ideal-AEAD environment", trusted_base=TB,
    assumptions=["ideal AEAD (ring AES-256-GCM): a chunk opens under (key, nonce) iff it is exactly what was sealed", "SHA-256 collision resistance", "std::fs::File modelled as an in-memory stream"])
add("C13", ["v_diff", "v_schemacodec"], [],
    level_text="Schema::serialize / Schema::deserialize and all component codecs verified against enc_schema / dec_schema specifications for all schema trees and all inputs (Verus, unbounded, real function text; termination included); reflexivity and completeness of schema comparison as lemmas over the diff_schema <==> wire_equiv contract.",
    level_note="Method tables (AbiTraitDefinition codec) assumed; format-0 reading is proved equal to the dec specification; that this equals the stored schema minus layout annotations is checked only by the bounded native run nschemacodec against an independent encoder; Vec/String extensionality assumed.",
    technique="Verus lemmas over function contracts", trusted_base=TB)
add("C17", ["v_introspect"], ["intro_"],
    level_text="total_index(i) is Some <==> i < total_len() for every well-formed result (Verus, unbounded, real function text); derive-generated Introspect: children exist exactly below introspect_len() for all indices and all values (Kani, per family member).",
    level_note="Kani: introspect_child(i) is Some <==> i < introspect_len() for ALL indices, per derive-family member (complete per type, bounded over definitions). Hand-written Introspect impls and Introspector navigation (well-formedness of its results): bounded native runs only.",
    technique="Verus function contracts", trusted_base=TB)
add("C18", ["v_derive_arith"], ["older_", "fam_older_", "fam_packed_", "packed_tuples_"],
    only=lambda n: not n.startswith("fam_packed_") or n.startswith("fam_packed_H") or n in ("fam_packed_SVerOrder", "fam_packed_SAbiRem", "fam_packed_SUpperBound"),
    level_text="For histories with AbiRemoved/added fields: the version-n definition writing version k produces exactly the version-k definition's bytes for the projected value and the version-k definition reads it back (all values); packed decision sound at every older version.",
    level_note="Bounded over definitions. Enum variants absent at k not covered.",
    technique="Kani contract harnesses over generated histories", trusted_base=TB)
import native_run
nreg = native_run.registry()
P["C12"] = dict(level="proof", verus=["v_schemafaith"], kani=[], kani_thorough=[], native=sorted(n for n in nreg if "C12" in nreg[n]["props"]),
    level_text="Partly proved, otherwise BOUNDED. Proved (Verus, real text of the hand-written WithSchema impls of bool/u8..u128/i8..i128/usize/isize, String, (), PhantomData<T>, Option<T>, Range<T>, (T1,), (T1,T2), (T1,T2,T3) and Schema::new_tuple1/2/3; Serialize/Deserialize of Range and PhantomData): schema(version) returns a schema whose wire shape equals the shape the type declares, and a generic reader driven only by that shape parses exactly the bytes the V-codec-verified serializers write (lemma_faithful, generic in T: all values, all versions, every nesting of these containers). BOUNDED for everything else (Vec/Box/arrays/maps, whose impls use closures over the recursion context; library containers; derive output): an independent reader driven only by get_schema::<T>(v) parses the bytes of every small-scope value completely and finds no recursion markers -- executed natively on the real code (small-scope enumeration); CBMC does not terminate on schema construction.",
    level_note="Bounded over definitions and over values (small domains per draw) outside the Verus unit. Five known findings (Result, HashMap/IndexMap guard, SocketAddr, BitVec/BitSet, enums with more than 256 variants). In the Verus unit WithSchemaContext is opaque and tuple field offsets / String layout hints are unspecified (not part of the wire shape).",
    technique="Verus contracts on the extracted WithSchema impls (shape_of(schema) == declared wire shape) + lemma_faithful over the V-codec serializer contracts; bounded stand-in elsewhere: native small-scope enumeration with an independent schema-driven reader",
    trusted_base=TB)
P["C15"] = dict(level="proof", verus=["v_diff"], kani=[], kani_thorough=[], native=["ledger_compat", "pairs_diff"],
    level_text="Partly proved, partly bounded: the type comparison the ledger relies on (diff_schema <==> wire_equiv, incl. the Fn/FnMut arm) is proved by Verus for all schema trees; AbiTraitDefinition::verify_backward_compatible is checked against an independent compatibility statement by native small-scope enumeration (BOUNDED: one recorded method, <= 2 arguments, async flag, presence).",
    level_note="verify_compatiblity's file handling and the definition codec at data version 2 are not under contract (two genuine defects there were found by demonstration and fixed). The method-matching loop uses iterator closures outside Verus' subset.",
    technique="Verus contract on diff_schema + bounded native enumeration of verify_backward_compatible", trusted_base=TB)
for pid in P:
    nat = sorted(n for n in nreg if pid in nreg[n]["props"])
    if nat:
        P[pid]["native"] = sorted(set(P[pid].get("native") or []) | set(nat))
        fams = sorted(set(re.sub(r"_(?:[SEH][A-Za-z0-9]+)$", "_<family type>", n) for n in P[pid]["native"]))
        P[pid]["level_note"] = (P[pid].get("level_note", "") + " BOUNDED stand-ins (native small-scope enumeration on the real code, labelled bounded, never counted as proved): " + ", ".join(fams) + ".").strip()
P["C06"]["verus"].append("v_diff")       # diff_schema runs on untrusted schema bytes during load: no panic / no out-of-bounds
P["C09"]["verus"].append("v_layout")     # "values equal whether they travel by reference or serialized" rests on the by-reference decision
P["C10"]["verus"].append("v_layout")     # the by-reference decision is part of version tolerance (differently versioned peers)
json.dump(P, open(os.path.join(ROOT, "checks.json"), "w"), indent=1)
for k, v in P.items():
    print(k, "verus", v["verus"], "kani quick", len(v["kani"]), "thorough +", len(v["kani_thorough"]))
