#!/usr/bin/env python3
"""Mechanical extraction of items from /repo sources into one Verus file per unit.

The verified text is the repository text: every item named in a unit's contracts file
is located by *impl header + item name* (never by line number), copied token by token,
and changed only by the fixed rule list R1..R6 documented in DESIGN.md section 3.2.
For every item the SHA-256 of the original text and a unified diff original -> emitted
are produced, so what the extraction dropped or replaced is inspectable.

Unit description format (units/<unit>/contracts.vrs), line oriented:

  //@ prelude                       verbatim Verus text emitted before the items
  //@ postlude                      verbatim Verus text emitted after the items
  //@ item <file> :: <selector>     selector = "fn NAME" | "struct NAME" | "enum NAME" |
                                    "const NAME" | "impl HEADER :: fn NAME"
  //@   ret NAME                    name the return value  (-> T  becomes  -> (NAME: T))
  //@   derive A, B                 (types) derive list that replaces the original one
  //@   sig  / spec                 text spliced between signature and body
  //@   loop N [iter NAME]          text spliced between the N-th loop header and its body;
                                    "iter NAME" names the ghost iterator of a for loop
  //@   proof at WHERE              proof text; WHERE = body_start | loop_start:N |
                                    loop_end:N | after_loop:N | before:<code snippet>
  //@   external_body               emit the signature with #[verifier::external_body]
                                    (the body is NOT verified; listed as assumption)
  //@   strings a, b, c             identifiers treated as diagnostic strings for R4b
  //@   replace <<old>> with <<new>>  rule R7: declared, listed, token-exact replacement
  //@ end
"""
import hashlib
import difflib
import json
import os
import re
import sys


class ExtractError(Exception):
    pass


class LostAnchor(ExtractError):
    pass


# ---------------------------------------------------------------------------------------
# tokenizer

IDENT_START = set("abcdefghijklmnopqrstuvwxyzABCDEFGHIJKLMNOPQRSTUVWXYZ_")
IDENT_CONT = IDENT_START | set("0123456789")


class Tok:
    __slots__ = ("kind", "text", "pos")

    def __init__(self, kind, text, pos):
        self.kind = kind
        self.text = text
        self.pos = pos

    def __repr__(self):
        return "Tok(%s,%r)" % (self.kind, self.text)


def tokenize(src):
    toks = []
    i = 0
    n = len(src)
    while i < n:
        c = src[i]
        if c in " \t\r\n":
            j = i
            while j < n and src[j] in " \t\r\n":
                j += 1
            toks.append(Tok("ws", src[i:j], i))
            i = j
        elif src.startswith("//", i):
            j = src.find("\n", i)
            if j < 0:
                j = n
            text = src[i:j]
            kind = "doc" if (text.startswith("///") and not text.startswith("////")) or text.startswith("//!") else "comment"
            toks.append(Tok(kind, text, i))
            i = j
        elif src.startswith("/*", i):
            depth = 1
            j = i + 2
            while j < n and depth > 0:
                if src.startswith("/*", j):
                    depth += 1
                    j += 2
                elif src.startswith("*/", j):
                    depth -= 1
                    j += 2
                else:
                    j += 1
            toks.append(Tok("comment", src[i:j], i))
            i = j
        elif c == '"' or (c == "b" and src.startswith('b"', i)):
            j = i + (2 if c == "b" else 1)
            while j < n and src[j] != '"':
                if src[j] == "\\":
                    j += 1
                j += 1
            j += 1
            toks.append(Tok("str", src[i:j], i))
            i = j
        elif (c == "r" and re.match(r'r#*"', src[i:i + 20])) or (c == "b" and re.match(r'br#*"', src[i:i + 20])):
            m = re.match(r'b?r(#*)"', src[i:i + 20])
            hashes = m.group(1)
            end = src.find('"' + hashes, i + len(m.group(0)))
            j = end + 1 + len(hashes)
            toks.append(Tok("str", src[i:j], i))
            i = j
        elif c == "'":
            # char literal or lifetime
            m = re.match(r"'(\\.[^']*|[^\\'])'", src[i:i + 12])
            if m:
                toks.append(Tok("char", m.group(0), i))
                i += len(m.group(0))
            else:
                j = i + 1
                while j < n and src[j] in IDENT_CONT:
                    j += 1
                toks.append(Tok("lifetime", src[i:j], i))
                i = j
        elif c in IDENT_START:
            j = i
            while j < n and src[j] in IDENT_CONT:
                j += 1
            toks.append(Tok("ident", src[i:j], i))
            i = j
        elif c.isdigit():
            j = i
            while j < n and (src[j] in IDENT_CONT or (src[j] == "." and j + 1 < n and src[j + 1].isdigit())):
                j += 1
            toks.append(Tok("num", src[i:j], i))
            i = j
        else:
            toks.append(Tok("punct", c, i))
            i += 1
    return toks


OPEN = {"{": "}", "(": ")", "[": "]"}
CLOSE = {"}": "{", ")": "(", "]": "["}


def sig(toks):
    """indices of significant (non ws/comment/doc) tokens"""
    return [i for i, t in enumerate(toks) if t.kind not in ("ws", "comment", "doc")]


def match_close(toks, i):
    """toks[i] is an opening bracket; return index of its closing bracket"""
    assert toks[i].text in OPEN, toks[i]
    depth = 0
    j = i
    while j < len(toks):
        t = toks[j]
        if t.kind == "punct":
            if t.text in OPEN:
                depth += 1
            elif t.text in CLOSE:
                depth -= 1
                if depth == 0:
                    return j
        j += 1
    raise ExtractError("unbalanced bracket at %d" % toks[i].pos)


def text_of(toks):
    return "".join(t.text for t in toks)


def norm(s):
    """whitespace-normalised text for header comparison"""
    toks = [t.text for t in tokenize(s) if t.kind not in ("ws", "comment", "doc")]
    return " ".join(toks)


# ---------------------------------------------------------------------------------------
# item location

ITEM_KW = ("fn", "struct", "enum", "impl", "trait", "const", "static", "type", "mod", "union")


def scan_items(toks, lo, hi):
    """Yield (kw, name_or_header, start, body_open, end) for items at nesting depth 0 in
    toks[lo:hi]. start includes attributes, doc comments and qualifiers; end is exclusive."""
    i = lo
    item_start = None
    while i < hi:
        t = toks[i]
        if t.kind in ("ws", "comment"):
            i += 1
            continue
        if item_start is None:
            item_start = i
        if t.kind == "doc":
            i += 1
            continue
        if t.kind == "punct" and t.text == "#":
            # attribute
            j = i + 1
            while toks[j].kind == "ws":
                j += 1
            if toks[j].text == "!":
                j += 1
            while toks[j].kind == "ws":
                j += 1
            if toks[j].text == "[":
                i = match_close(toks, j) + 1
                continue
        if t.kind == "ident" and t.text in ("pub", "unsafe", "async", "extern", "default"):
            i += 1
            # pub(crate)
            j = i
            while j < hi and toks[j].kind == "ws":
                j += 1
            if j < hi and toks[j].text == "(" and t.text == "pub":
                i = match_close(toks, j) + 1
            elif j < hi and toks[j].kind == "str" and t.text == "extern":
                i = j + 1
            continue
        if t.kind == "ident" and t.text == "const":
            # const fn or const item
            j = i + 1
            while toks[j].kind == "ws":
                j += 1
            if toks[j].kind == "ident" and toks[j].text in ("fn", "unsafe", "async", "extern"):
                i = j
                continue
        if t.kind == "ident" and t.text in ITEM_KW:
            kw = t.text
            # find end: first ';' or '{' at bracket depth 0 (parens/brackets skipped)
            j = i + 1
            body_open = None
            while j < hi:
                u = toks[j]
                if u.kind == "punct":
                    if u.text in ("(", "["):
                        j = match_close(toks, j) + 1
                        continue
                    if u.text == "{":
                        body_open = j
                        break
                    if u.text == ";":
                        break
                j += 1
            if j >= hi:
                raise ExtractError("item without end at %d" % t.pos)
            if body_open is not None:
                end = match_close(toks, body_open) + 1
            else:
                end = j + 1
            if kw == "impl" or kw == "trait":
                header = norm(text_of(toks[i:body_open if body_open is not None else j]))
                yield (kw, header, item_start, body_open, end)
            else:
                k = i + 1
                while toks[k].kind == "ws":
                    k += 1
                name = toks[k].text
                yield (kw, name, item_start, body_open, end)
            i = end
            item_start = None
            continue
        if t.kind == "ident" and t.text in ("use", "macro_rules"):
            # skip to ';' or balanced block
            j = i + 1
            while j < hi:
                u = toks[j]
                if u.kind == "punct" and u.text in OPEN:
                    j = match_close(toks, j) + 1
                    if t.text == "macro_rules":
                        break
                    continue
                if u.kind == "punct" and u.text == ";":
                    j += 1
                    break
                j += 1
            i = j
            item_start = None
            continue
        # something else (macro invocation at item level, stray token)
        if t.kind == "punct" and t.text in OPEN:
            i = match_close(toks, i) + 1
        else:
            i += 1
        if t.kind == "punct" and t.text in (";", "}"):
            item_start = None
    return


class SourceFile:
    def __init__(self, path):
        self.path = path
        self.src = open(path, encoding="utf-8").read()
        self.toks = tokenize(self.src)
        self.top = list(scan_items(self.toks, 0, len(self.toks)))

    def find(self, selector):
        """selector: list of path parts, e.g. ['fn diff_schema'], ['impl Foo', 'fn bar'] or
        ['mod crypto', 'impl Read for X', 'fn read'].  Returns (start, body_open, end, impl_header or None)."""
        items = self.top
        header = None
        for depth, part in enumerate(selector):
            last = depth == len(selector) - 1
            if part.startswith(("impl", "trait")) and not last:
                hdr = norm(part)
                hits = [it for it in items if it[0] in ("impl", "trait") and it[1] == hdr]
                if not hits:
                    raise LostAnchor("%s: no '%s'" % (self.path, part))
                header = hdr
                nxt = []
                for it in hits:
                    nxt += list(scan_items(self.toks, it[3] + 1, it[4] - 1))
                items = nxt
                continue
            kw, name = part.split(None, 1)
            hits = [it for it in items if it[0] == kw and it[1] == name]
            if last:
                if len(hits) != 1:
                    raise LostAnchor("%s: %d matches for '%s'" % (self.path, len(hits), " :: ".join(selector)))
                return hits[0][2], hits[0][3], hits[0][4], header
            if kw != "mod" or len(hits) != 1:
                raise LostAnchor("%s: %d matches for container '%s'" % (self.path, len(hits), part))
            items = list(scan_items(self.toks, hits[0][3] + 1, hits[0][4] - 1))
        raise ExtractError("bad selector %r" % (selector,))


# ---------------------------------------------------------------------------------------
# rules

CFG_OFF = set()   # cargo features that are OFF in the configuration under verification (set per unit)


def strip_trivia_and_attrs(toks, keep_repr=True, log=None):
    """R1: drop comments, doc comments and attributes (keeps #[repr(..)] on request).
    R1b: a statement/block under #[cfg(feature = "F")] with F switched off in the verified configuration is
    dropped together with the attribute; under #[cfg(not(feature = "F"))] it is kept."""
    out = []
    i = 0
    n = len(toks)
    while i < n:
        t = toks[i]
        if t.kind in ("comment", "doc"):
            i += 1
            continue
        if t.kind == "punct" and t.text == "#":
            j = i + 1
            while j < n and toks[j].kind == "ws":
                j += 1
            if j < n and toks[j].text == "[":
                e = match_close(toks, j)
                attr = norm(text_of(toks[j + 1:e]))
                if keep_repr and attr.startswith("repr"):
                    out.extend(toks[i:e + 1])
                m = re.match(r'cfg \( feature = "([^"]+)" \)$', attr)
                if m and m.group(1) in CFG_OFF:
                    # drop the attributed block or statement
                    k = e + 1
                    while k < n and toks[k].kind in ("ws", "comment", "doc"):
                        k += 1
                    if k < n and toks[k].text == "{":
                        k2 = match_close(toks, k) + 1
                    else:
                        k2 = k
                        while k2 < n and not (toks[k2].kind == "punct" and toks[k2].text == ";"):
                            if toks[k2].kind == "punct" and toks[k2].text in OPEN:
                                k2 = match_close(toks, k2)
                            k2 += 1
                        k2 += 1
                    if log is not None:
                        log.append("R1b: dropped code under #[cfg(feature = \"%s\")] (feature off)" % m.group(1))
                    i = k2
                    continue
                i = e + 1
                continue
        out.append(t)
        i += 1
    return out


def sigs(toks):
    return [t for t in toks if t.kind != "ws"]


def replace_seq(toks, pattern, replacement, log, rule):
    """Replace every occurrence of the significant-token text sequence `pattern` by the
    tokens of `replacement`."""
    pat = [t.text for t in tokenize(pattern) if t.kind != "ws"]
    rep = tokenize(replacement)
    out = []
    i = 0
    n = len(toks)
    count = 0
    while i < n:
        # try match at i
        j = i
        k = 0
        while k < len(pat) and j < n:
            if toks[j].kind == "ws":
                if k == 0:
                    break
                j += 1
                continue
            if toks[j].text != pat[k]:
                break
            k += 1
            j += 1
        if k == len(pat):
            out.extend(rep)
            count += 1
            i = j
        else:
            out.append(toks[i])
            i += 1
    if count:
        log.append("%s: %r -> %r (%d x)" % (rule, pattern, replacement, count))
    return out, count


def split_top_commas(toks):
    parts, cur, depth = [], [], 0
    for t in toks:
        if t.kind == "punct" and t.text in OPEN:
            depth += 1
        elif t.kind == "punct" and t.text in CLOSE:
            depth -= 1
        if t.kind == "punct" and t.text == "," and depth == 0:
            parts.append(cur)
            cur = []
        else:
            cur.append(t)
    if cur:
        parts.append(cur)
    return parts


def rule_asserts(toks, log):
    """R4d: assert_eq!(a, b, msg..) -> assert!(a == b);  debug_assert!(c, msg..) / assert!(c, msg..) -> assert!(c).
    Verus turns assert!(c) into the proof obligation c (the panic is unreachable); message arguments are dropped."""
    out = []
    i = 0
    n = len(toks)
    while i < n:
        t = toks[i]
        if t.kind == "ident" and t.text in ("assert_eq", "assert_ne", "debug_assert", "debug_assert_eq", "assert"):
            j = i + 1
            while j < n and toks[j].kind == "ws":
                j += 1
            if j < n and toks[j].text == "!":
                k = j + 1
                while k < n and toks[k].kind == "ws":
                    k += 1
                if k < n and toks[k].text == "(":
                    e = match_close(toks, k)
                    args = split_top_commas(toks[k + 1:e])
                    if t.text in ("assert_eq", "debug_assert_eq") and len(args) >= 2:
                        new = "assert!((" + text_of(args[0]).strip() + ") == (" + text_of(args[1]).strip() + "))"
                    elif t.text == "assert_ne" and len(args) >= 2:
                        new = "assert!((" + text_of(args[0]).strip() + ") != (" + text_of(args[1]).strip() + "))"
                    elif args:
                        new = "assert!(" + text_of(args[0]).strip() + ")"
                    else:
                        new = None
                    if new is not None and (len(args) > (2 if "eq" in t.text or "ne" in t.text else 1) or t.text != "assert"):
                        out.extend(tokenize(new))
                        log.append("R4d: %s!(..) -> %s" % (t.text, new[:60]))
                        i = e + 1
                        continue
        out.append(t)
        i += 1
    return out


def rule_macros(toks, log):
    """R4: format!(..) -> verif_fmt(); panic!(..)/unreachable!(..) -> verif_panic().
    R13: offset_of_tuple!(..) (a memory-layout annotation computed with pointer arithmetic) -> verif_offset(),
    an unspecified usize."""
    out = []
    i = 0
    n = len(toks)
    while i < n:
        t = toks[i]
        if t.kind == "ident" and t.text in ("format", "panic", "unreachable", "todo", "unimplemented", "offset_of_tuple"):
            j = i + 1
            while j < n and toks[j].kind == "ws":
                j += 1
            if j < n and toks[j].text == "!":
                k = j + 1
                while k < n and toks[k].kind == "ws":
                    k += 1
                if k < n and toks[k].text in OPEN:
                    e = match_close(toks, k)
                    name = "verif_fmt" if t.text == "format" else ("verif_offset" if t.text == "offset_of_tuple" else "verif_panic")
                    out.extend(tokenize(name + "()"))
                    log.append("%s: %s!(..) -> %s()" % ("R13" if t.text == "offset_of_tuple" else "R4", t.text, name))
                    i = e + 1
                    continue
        out.append(t)
        i += 1
    return out


def rule_literal_to_string(toks, log):
    """R4c: "literal".to_string() / "literal".into() in message position -> verif_fmt() (message text only)."""
    out = []
    i = 0
    n = len(toks)
    while i < n:
        t = toks[i]
        if t.kind == "str":
            sig = [k for k in range(i + 1, min(n, i + 12)) if toks[k].kind != "ws"][:4]
            if len(sig) == 4 and [toks[k].text for k in sig] == [".", "to_string", "(", ")"]:
                out.extend(tokenize("verif_fmt()"))
                log.append("R4c: %s.to_string() -> verif_fmt()" % t.text[:30])
                i = sig[3] + 1
                continue
        out.append(t)
        i += 1
    return out


def rule_string_chains(toks, string_idents, log):
    """R4b: a maximal binary-+ chain, one of whose leaves is a string literal, a
    .to_string() call or an identifier listed as diagnostic string, is replaced as a whole
    by verif_fmt(). Operands are recognised syntactically: an operand is a run of tokens
    without top-level operators ',', ';', '=', '{', '}' and brackets are skipped as units."""
    # Work on significant tokens with bracket matching; chains are found inside any
    # bracket level, innermost first.
    def process(seq):
        # first recurse into brackets
        res = []
        i = 0
        while i < len(seq):
            t = seq[i]
            if t.kind == "punct" and t.text in OPEN:
                e = match_close(seq, i)
                inner = process(seq[i + 1:e])
                inner_sig = [x.text for x in inner if x.kind != "ws"]
                # ( <replaced chain> ).to_string()  ->  verif_fmt()
                nxt = [x for x in seq[e + 1:e + 12] if x.kind != "ws"][:5]
                if t.text == "(" and inner_sig == ["verif_fmt", "(", ")"] and len(nxt) >= 4 and [x.text for x in nxt[:4]] == [".", "to_string", "(", ")"]:
                    res.extend(inner)
                    # skip to after the closing paren of to_string()
                    k = e + 1
                    seen = 0
                    while seen < 4:
                        if seq[k].kind != "ws":
                            seen += 1
                        k += 1
                    i = k
                    continue
                res.append(t)
                res.extend(inner)
                res.append(seq[e])
                i = e + 1
            else:
                res.append(t)
                i += 1
        seq = res
        # split into segments at top-level separators
        out = []
        seg = []
        depth = 0
        i = 0

        def flush(seg):
            out.extend(rewrite_segment(seg))

        while i < len(seq):
            t = seq[i]
            if t.kind == "punct" and t.text in OPEN:
                e = match_close(seq, i)
                seg.extend(seq[i:e + 1])
                i = e + 1
                continue
            if t.kind == "punct" and t.text in (",", ";"):
                flush(seg)
                seg = []
                out.append(t)
                i += 1
                continue
            if t.kind == "punct" and t.text == "=":
                # '=' but not '==', '!=', '<=', '>=', '=>', '+='
                prev = seg[-1].text if seg and seg[-1].kind == "punct" and seg[-1].pos == t.pos - 1 else ""
                nxt = seq[i + 1].text if i + 1 < len(seq) and seq[i + 1].kind == "punct" and seq[i + 1].pos == t.pos + 1 else ""
                if prev not in ("=", "!", "<", ">", "+", "-", "*", "/") and nxt not in ("=", ">"):
                    seg.append(t)
                    flush_keep = seg
                    out.extend(flush_keep)
                    seg = []
                    i += 1
                    continue
            seg.append(t)
            i += 1
        flush(seg)
        return out

    def is_stringy(operand):
        s = [t for t in operand if t.kind != "ws"]
        if not s:
            return False
        if any(t.kind == "str" for t in s if t.text.startswith('"')):
            # a bare literal operand, or &"...", or "..".to_string()
            if s[0].kind == "str" or (s[0].text == "&" and len(s) > 1 and s[1].kind == "str"):
                return True
        txt = "".join(t.text for t in s)
        if txt.endswith(".to_string()"):
            return True
        # identifier / field path possibly with leading & or *
        k = 0
        while k < len(s) and s[k].text in ("&", "*"):
            k += 1
        rest = s[k:]
        if rest and all(t.kind == "ident" or t.text == "." or t.kind == "num" or t.text in ("[", "]") for t in rest):
            last_ident = [t.text for t in rest if t.kind == "ident"]
            if last_ident and last_ident[-1] in string_idents:
                return True
        return False

    def rewrite_segment(seg):
        # find top-level '+' (binary) in seg (brackets already opaque? they're inline; track depth)
        plus = []
        depth = 0
        for idx, t in enumerate(seg):
            if t.kind == "punct" and t.text in OPEN:
                depth += 1
            elif t.kind == "punct" and t.text in CLOSE:
                depth -= 1
            elif depth == 0 and t.kind == "punct" and t.text == "+":
                nxt = seg[idx + 1] if idx + 1 < len(seg) else None
                if nxt is not None and nxt.kind == "punct" and nxt.text == "=" and nxt.pos == t.pos + 1:
                    continue
                plus.append(idx)
        if not plus:
            return seg
        # operands between pluses; the chain start: walk back from first '+' to the start of
        # the operand = after the last top-level token that cannot be part of an operand
        def operand_start(idx):
            j = idx - 1
            depth = 0
            while j >= 0:
                t = seg[j]
                if t.kind == "punct" and t.text in CLOSE:
                    depth += 1
                elif t.kind == "punct" and t.text in OPEN:
                    depth -= 1
                    if depth < 0:
                        return j + 1
                elif depth == 0 and (
                    (t.kind == "ident" and t.text in ("return", "let", "in", "if", "else", "match", "mut"))
                    or (t.kind == "punct" and t.text in ("=", ">", "<", "|", "!", "?", ":") and not (t.text == ":" and False))
                ):
                    return j + 1
                j -= 1
            return 0

        def operand_end(idx):
            j = idx + 1
            depth = 0
            while j < len(seg):
                t = seg[j]
                if t.kind == "punct" and t.text in OPEN:
                    depth += 1
                elif t.kind == "punct" and t.text in CLOSE:
                    depth -= 1
                    if depth < 0:
                        return j
                elif depth == 0 and t.kind == "punct" and t.text in ("=", ">", "<", "|", "?"):
                    return j
                j += 1
            return len(seg)

        start = operand_start(plus[0])
        end = operand_end(plus[-1])
        # operands
        bounds = [start] + [p + 1 for p in plus]
        ends = plus + [end]
        operands = [seg[a:b] for a, b in zip(bounds, ends)]
        if any(is_stringy(op) for op in operands):
            # swallow a directly following .to_string()
            log.append("R4b: string chain %r -> verif_fmt()" % text_of(seg[start:end]).strip())
            lead_ws = []
            k = start
            while k < end and seg[k].kind == "ws":
                lead_ws.append(seg[k])
                k += 1
            return seg[:start] + lead_ws + tokenize("verif_fmt()") + seg[end:]
        return seg

    return process(toks)


def rule_deref_compare(toks, names, log):
    """R8: `X op Y` with op in == != < > <= >= and X, Y bare identifiers declared (per item) to be
    reference-typed bindings becomes `*X op *Y`. std's comparison impls for references forward to
    the referents; Verus has no specification for the forwarding impls."""
    names = set(names)
    out = []
    i = 0
    n = len(toks)
    sigidx = [k for k, t in enumerate(toks) if t.kind != "ws"]
    pos_in_sig = {k: j for j, k in enumerate(sigidx)}
    skip_star_for = set()
    for j, k in enumerate(sigidx):
        t = toks[k]
        if t.kind != "ident" or t.text not in names:
            continue
        prev = toks[sigidx[j - 1]] if j > 0 else None
        if prev is not None and prev.kind == "punct" and prev.text in (".", "*", "&", ":"):
            continue
        # operator
        if j + 1 >= len(sigidx):
            continue
        o1 = toks[sigidx[j + 1]]
        if o1.kind != "punct" or o1.text not in ("=", "!", "<", ">"):
            continue
        jj = j + 2
        op = o1.text
        if jj < len(sigidx):
            o2 = toks[sigidx[jj]]
            if o2.kind == "punct" and o2.text == "=" and o2.pos == o1.pos + 1:
                op += "="
                jj += 1
        if op not in ("==", "!=", "<", ">", "<=", ">="):
            continue
        if jj >= len(sigidx):
            continue
        rhs = toks[sigidx[jj]]
        if rhs.kind != "ident" or rhs.text not in names:
            continue
        after = toks[sigidx[jj + 1]] if jj + 1 < len(sigidx) else None
        if after is not None and after.kind == "punct" and after.text in (".", "(", "[", ":"):
            continue
        skip_star_for.add(sigidx[j])
        skip_star_for.add(sigidx[jj])
        log.append("R8: %s %s %s -> *%s %s *%s" % (t.text, op, rhs.text, t.text, op, rhs.text))
    for k, t in enumerate(toks):
        if k in skip_star_for:
            out.append(Tok("punct", "*", -1))
        out.append(t)
    return out


def rule_replace_loops(toks, repl, selector, log):
    """R9: the N-th loop statement of the body is replaced as a whole by the given text (used for
    loops outside Verus' subset that the unit's precondition makes unreachable; the replacement
    is a call with precondition `false`, so unreachability is proved, not assumed)."""
    for n, text in sorted(repl, key=lambda x: -x[0]):
        ifn, ibody, iend = find_fn_parts(toks)
        loops = loop_headers(toks, ibody, iend)
        if n < 1 or n > len(loops):
            raise LostAnchor("replace_loop %d: %s has %d loops" % (n, selector, len(loops)))
        kw, lo, lc = loops[n - 1]
        log.append("R9: loop %d (%r ...) replaced by %r" % (n, text_of(toks[kw:lo]).strip()[:60], text))
        toks = toks[:kw] + tokenize(text) + toks[lc + 1:]
    return toks


def find_fn_parts(toks):
    """For a fn item token list: return (idx_fn, idx_body_open or None, idx_end)."""
    i = 0
    while i < len(toks):
        if toks[i].kind == "ident" and toks[i].text == "fn":
            break
        i += 1
    j = i + 1
    while j < len(toks):
        u = toks[j]
        if u.kind == "punct" and u.text in ("(", "["):
            j = match_close(toks, j) + 1
            continue
        if u.kind == "punct" and u.text == "{":
            return i, j, match_close(toks, j)
        if u.kind == "punct" and u.text == ";":
            return i, None, j
        j += 1
    raise ExtractError("fn without body")


def name_return(toks, retname):
    """-> T   becomes   -> (retname: T)   in a fn signature (before the body)."""
    ifn, ibody, _ = find_fn_parts(toks)
    limit = ibody if ibody is not None else len(toks)
    # locate '->' at depth 0 after the parameter list
    j = ifn
    while j < limit and not (toks[j].kind == "punct" and toks[j].text == "("):
        if toks[j].kind == "punct" and toks[j].text == "<":
            pass
        j += 1
    j = match_close(toks, j) + 1
    k = j
    arrow = None
    while k < limit - 1:
        if toks[k].text == "-" and toks[k + 1].text == ">":
            arrow = k
            break
        k += 1
    if arrow is None:
        return toks
    # type extends to 'where' at depth 0 or to body
    e = arrow + 2
    depth = 0
    while e < limit:
        t = toks[e]
        if t.kind == "punct" and t.text in OPEN:
            e = match_close(toks, e) + 1
            continue
        if t.kind == "ident" and t.text == "where":
            break
        e += 1
    ty = toks[arrow + 2:e]
    # trim trailing ws
    tail = []
    while ty and ty[-1].kind == "ws":
        tail.insert(0, ty.pop())
    lead = []
    while ty and ty[0].kind == "ws":
        lead.append(ty.pop(0))
    new = toks[:arrow + 2] + lead + tokenize("(" + retname + ": ") + ty + tokenize(")") + tail + toks[e:]
    return new


def loop_headers(toks, body_open, body_close):
    """Return list of (kw_index, loop_body_open, loop_body_close) in source order for all
    loops (for/while/loop) inside the fn body."""
    res = []
    i = body_open + 1
    while i < body_close:
        t = toks[i]
        if t.kind == "ident" and t.text in ("for", "while", "loop"):
            # 'for' in 'impl<..> for' or HRTB cannot occur in a body except for<'a> (rare)
            j = i + 1
            while j < body_close:
                u = toks[j]
                if u.kind == "punct" and u.text in ("(", "["):
                    j = match_close(toks, j) + 1
                    continue
                if u.kind == "punct" and u.text == "{":
                    break
                j += 1
            res.append((i, j, match_close(toks, j)))
        i += 1
    return res


def apply_fn_contract(toks, item, log):
    """R5: splice spec text. `item` is the parsed contract description."""
    if item.get("ret"):
        toks = name_return(toks, item["ret"])
    ifn, ibody, iend = find_fn_parts(toks)
    if ibody is None:
        return toks
    inserts = []  # (index, text)
    if item.get("spec"):
        inserts.append((ibody, "\n" + item["spec"].rstrip() + "\n"))
    if item.get("header"):
        # Verus function-level directives (hide / broadcast use): raw text, first thing in the body
        inserts.append((ibody + 1, "\n" + item["header"].rstrip() + "\n"))
    loops = loop_headers(toks, ibody, iend)
    for n, spec in item.get("loops", {}).items():
        if n < 1 or n > len(loops):
            raise LostAnchor("loop %d not found in %s (has %d loops)" % (n, item["selector"], len(loops)))
        kw, lo, lc = loops[n - 1]
        if spec.get("iter"):
            # for PAT in EXPR {   ->  for PAT in NAME: EXPR {
            if toks[kw].text != "for":
                raise LostAnchor("loop %d of %s is not a for loop" % (n, item["selector"]))
            k = kw + 1
            depth = 0
            while k < lo:
                u = toks[k]
                if u.kind == "punct" and u.text in OPEN:
                    k = match_close(toks, k) + 1
                    continue
                if u.kind == "ident" and u.text == "in":
                    break
                k += 1
            inserts.append((k + 1, " " + spec["iter"] + ":"))
        inserts.append((lo, "\n" + spec["text"].rstrip() + "\n"))
    for where, text in item.get("proofs", []):
        if text.startswith("\0RAW"):
            block = "\n" + text[4:].rstrip() + "\n"   # ghost statements (let ghost ...) spliced as they are
        else:
            block = "\nproof {\n" + text.rstrip() + "\n}\n"
        if where == "body_start":
            inserts.append((ibody + 1, block))
        elif where.startswith("loop_start:"):
            n = int(where.split(":")[1])
            if n > len(loops):
                raise LostAnchor("loop %d not found in %s" % (n, item["selector"]))
            inserts.append((loops[n - 1][1] + 1, block))
        elif where.startswith("loop_end:"):
            n = int(where.split(":")[1])
            if n > len(loops):
                raise LostAnchor("loop %d not found in %s" % (n, item["selector"]))
            # a loop body may end in an expression statement without ';' (value ()): terminate it first
            k = loops[n - 1][2] - 1
            while k > 0 and toks[k].kind == "ws":
                k -= 1
            sep = "" if toks[k].text in (";", "}", "{") else ";"
            inserts.append((loops[n - 1][2], sep + block))
        elif where.startswith("after_loop:"):
            n = int(where.split(":")[1])
            if n > len(loops):
                raise LostAnchor("loop %d not found in %s" % (n, item["selector"]))
            inserts.append((loops[n - 1][2] + 1, block))
        elif where.startswith("before:"):
            snippet = [t.text for t in tokenize(where[len("before:"):]) if t.kind != "ws"]
            pos = find_seq(toks, snippet, ibody, iend)
            if pos is None:
                raise LostAnchor("anchor %r not found in %s" % (where, item["selector"]))
            inserts.append((pos, block))
        else:
            raise ExtractError("bad proof position " + where)
    for idx, text in sorted(inserts, key=lambda x: -x[0]):
        toks = toks[:idx] + [Tok("spec", text, -1)] + toks[idx:]
    return toks


def find_seq(toks, pat, lo, hi):
    i = lo
    while i < hi:
        j = i
        k = 0
        while k < len(pat) and j < hi:
            if toks[j].kind == "ws":
                if k == 0:
                    break
                j += 1
                continue
            if toks[j].text != pat[k]:
                break
            k += 1
            j += 1
        if k == len(pat):
            return i
        i += 1
    return None


def replace_derive(toks, derive):
    """R2: the original derive list was dropped by R1; prepend the unit's list."""
    pre = ""
    if derive:
        pre = "#[derive(" + derive + ")]\n"
    return tokenize(pre) + toks


def make_external_body(toks):
    """Keep signature (+ spliced spec), replace body by unimplemented!()."""
    ifn, ibody, iend = find_fn_parts(toks)
    return tokenize("#[verifier::external_body]\n") + toks[:ibody] + tokenize("{ unimplemented!() }")


# ---------------------------------------------------------------------------------------
# unit description parsing

def parse_unit(path):
    lines = open(path, encoding="utf-8").read().split("\n")
    unit = {"prelude": "", "postlude": "", "items": [], "global_replace": [], "strings": []}
    mode = None
    cur = None
    sub = None
    buf = []

    def flush_sub():
        nonlocal sub, buf
        if cur is None or sub is None:
            buf = []
            sub = None
            return
        text = "\n".join(buf)
        if sub[0] == "spec":
            cur["spec"] = text
        elif sub[0] == "loop":
            cur.setdefault("loops", {})[sub[1]] = {"text": text, "iter": sub[2]}
        elif sub[0] == "proof":
            cur.setdefault("proofs", []).append((sub[1], text))
        elif sub[0] == "raw":
            cur.setdefault("proofs", []).append((sub[1], "\0RAW" + text))
        elif sub[0] == "impl_items":
            cur["impl_items"] = text
        elif sub[0] == "header":
            cur["header"] = text
        buf = []
        sub = None

    for ln in lines:
        s = ln.strip()
        if s.startswith("//@"):
            d = s[3:].strip()
            if d == "prelude":
                flush_sub()
                mode = "prelude"
                continue
            if d == "postlude":
                flush_sub()
                mode = "postlude"
                continue
            if d.startswith("include_unit "):
                inc = os.path.normpath(os.path.join(os.path.dirname(path), d[len("include_unit "):].strip()))
                sub_unit = parse_unit(inc)
                unit["prelude"] += sub_unit["prelude"]
                unit["postlude"] += sub_unit["postlude"]
                unit["items"] += sub_unit["items"]
                unit["global_replace"] += sub_unit["global_replace"]
                unit["strings"] += sub_unit["strings"]
                if sub_unit.get("literal_to_string"):
                    unit["literal_to_string"] = True
                continue
            if d.startswith("include "):
                inc = os.path.normpath(os.path.join(os.path.dirname(path), d[8:].strip()))
                txt = open(inc, encoding="utf-8").read()
                if mode == "postlude":
                    unit["postlude"] += txt + "\n"
                else:
                    unit["prelude"] += txt + "\n"
                continue
            if d.startswith("global_replace "):
                m = re.match(r"global_replace\s+<<(.*?)>>\s+with\s+<<(.*?)>>", d)
                unit["global_replace"].append((m.group(1), m.group(2)))
                continue
            if d == "literal_to_string":
                unit["literal_to_string"] = True
                continue
            if d.startswith("cfg_off "):
                for x in d[8:].split(","):
                    CFG_OFF.add(x.strip())
                continue
            if d.startswith("global_strings "):
                unit["strings"] += [x.strip() for x in d[len("global_strings "):].split(",")]
                continue
            if d.startswith("item "):
                flush_sub()
                mode = "item"
                spec = d[5:].strip()
                parts = [p.strip() for p in spec.split("::")]
                # file :: sel [:: sel]; impl headers may themselves contain '::' -> rejoin
                file = parts[0]
                rest = spec.split("::", 1)[1].strip()
                sel = split_selector(rest)
                cur = {"file": file, "selector": sel, "loops": {}, "proofs": [], "replace": []}
                unit["items"].append(cur)
                continue
            if d == "end":
                flush_sub()
                cur = None
                mode = None
                continue
            if mode == "item":
                if d.startswith("ret "):
                    flush_sub()
                    cur["ret"] = d[4:].strip()
                elif d.startswith("derive"):
                    flush_sub()
                    cur["derive"] = d[6:].strip()
                elif d == "spec" or d == "sig":
                    flush_sub()
                    sub = ("spec",)
                elif d.startswith("loop "):
                    flush_sub()
                    m = re.match(r"loop\s+(\d+)(?:\s+iter\s+(\w+))?", d)
                    sub = ("loop", int(m.group(1)), m.group(2))
                elif d.startswith("proof at "):
                    flush_sub()
                    sub = ("proof", d[len("proof at "):].strip())
                elif d.startswith("raw at "):
                    flush_sub()
                    sub = ("raw", d[len("raw at "):].strip())
                elif d == "impl_items":
                    flush_sub()
                    sub = ("impl_items",)
                elif d == "header":
                    flush_sub()
                    sub = ("header",)
                elif d.startswith("attr "):
                    flush_sub()
                    cur.setdefault("attrs", []).append(d[5:].strip())
                elif d == "external_body":
                    flush_sub()
                    cur["external_body"] = True
                elif d.startswith("strings "):
                    flush_sub()
                    cur["strings"] = [x.strip() for x in d[8:].split(",")]
                elif d.startswith("derefs "):
                    flush_sub()
                    cur["derefs"] = [x.strip() for x in d[7:].split(",")]
                elif d.startswith("replace_loop "):
                    flush_sub()
                    m = re.match(r"replace_loop\s+(\d+)\s+with\s+<<(.*?)>>", d)
                    cur.setdefault("replace_loops", []).append((int(m.group(1)), m.group(2)))
                elif d.startswith("replace "):
                    flush_sub()
                    m = re.match(r"replace\s+<<(.*?)>>\s+with\s+<<(.*?)>>", d)
                    cur["replace"].append((m.group(1), m.group(2)))
                elif d.startswith("#"):
                    pass
                else:
                    raise ExtractError("unknown directive: " + d)
                continue
            if d.startswith("#"):
                continue
            raise ExtractError("unknown directive: " + d)
        else:
            if mode == "prelude":
                unit["prelude"] += ln + "\n"
            elif mode == "postlude":
                unit["postlude"] += ln + "\n"
            elif mode == "item" and sub is not None:
                buf.append(ln)
    flush_sub()
    return unit


def split_selector(rest):
    """'mod crypto :: impl<T: A::B> X for Y :: fn foo' -> ['mod crypto', 'impl<..> X for Y', 'fn foo']: split at
    every ' :: ' that is followed by an item keyword."""
    parts = re.split(r"\s+::\s+(?=(?:fn|const|type|struct|enum|impl|trait|mod)\b)", rest.strip())
    return [p.strip() for p in parts]


# ---------------------------------------------------------------------------------------
# emission

def extract_unit(unit_path, repo, out_rs, out_meta):
    unit = parse_unit(unit_path)
    files = {}
    emitted = []  # list of dict(selector, impl_header, text, sha, orig, log)
    for item in unit["items"]:
        fpath = os.path.join(repo, item["file"])
        if fpath not in files:
            if not os.path.exists(fpath):
                raise LostAnchor("missing file " + fpath)
            files[fpath] = SourceFile(fpath)
        sf = files[fpath]
        start, body_open, end, header = sf.find(item["selector"])
        orig_toks = sf.toks[start:end]
        orig_text = text_of(orig_toks)
        log = []
        toks = [Tok(t.kind, t.text, t.pos) for t in orig_toks]
        kind = item["selector"][-1].split()[0]
        toks = strip_trivia_and_attrs(toks, log=log)
        # R3 + declared replacements
        for old, new in unit["global_replace"]:
            toks, _ = replace_seq(toks, old, new, log, "R3")
        for old, new in item.get("replace", []):
            toks, cnt = replace_seq(toks, old, new, log, "R7")
            if cnt == 0:
                raise LostAnchor("replace anchor %r not found in %s" % (old, item["selector"]))
        if kind == "fn":
            if item.get("replace_loops"):
                toks = rule_replace_loops(toks, item["replace_loops"], " :: ".join(item["selector"]), log)
            if item.get("derefs"):
                toks = rule_deref_compare(toks, item["derefs"], log)
            toks = rule_asserts(toks, log)
            toks = rule_macros(toks, log)
            strings = set(unit["strings"]) | set(item.get("strings", []))
            toks = rule_string_chains(toks, strings, log)
            if unit.get("literal_to_string"):
                toks = rule_literal_to_string(toks, log)
            item["selector_text"] = " :: ".join(item["selector"])
            toks = apply_fn_contract(toks, dict(item, selector=item["selector_text"]), log)
            if item.get("attrs"):
                toks = tokenize("\n".join(item["attrs"]) + "\n") + toks
                log.append("R5: verifier attributes added: %s" % ", ".join(item["attrs"]))
            if item.get("external_body"):
                toks = make_external_body(toks)
                log.append("R6: body replaced by external_body (assumption)")
        elif kind in ("struct", "enum"):
            if "derive" in item:
                toks = replace_derive(toks, item["derive"])
                log.append("R2: derive list replaced by (%s)" % item["derive"])
        text = text_of(toks).strip("\n")
        emitted.append({
            "file": item["file"],
            "selector": " :: ".join(item["selector"]),
            "impl_header": header,
            "kind": kind,
            "text": text,
            "orig": orig_text,
            "sha256": hashlib.sha256(orig_text.encode()).hexdigest(),
            "rules": log,
            "external_body": bool(item.get("external_body")),
            "impl_items": item.get("impl_items", ""),
        })
    # group consecutive fns by impl header
    out_lines = []

    def emit(s):
        out_lines.extend(s.split("\n"))

    emit("// GENERATED by /verif/tools/extract.py from %s -- do not edit" % repo)
    emit("#![allow(unused_imports, dead_code, unused_variables, non_camel_case_types, unused_mut, unused_parens, unused_braces)]")
    emit("use vstd::prelude::*;")
    emit("use std::ops::Deref;")
    emit("use vstd::string::StringSliceAdditionalSpecFns;")
    emit("verus! {")
    emit(unit["prelude"])
    headers_global = unit["global_replace"]
    i = 0
    line_map = []  # (first_line, last_line, selector)
    while i < len(emitted):
        e = emitted[i]
        if e["impl_header"]:
            hdr = e["impl_header"]
            # apply R3 to header text as well
            htoks = tokenize(find_raw_header(files[os.path.join(repo, e["file"])], hdr))
            dummy = []
            for old, new in headers_global:
                htoks, _ = replace_seq(htoks, old, new, dummy, "R3")
            emit(text_of(htoks).strip() + " {")
            while i < len(emitted) and emitted[i]["impl_header"] == hdr:
                if emitted[i].get("impl_items"):
                    emit(emitted[i]["impl_items"])
                first = len(out_lines) + 1
                emit(emitted[i]["text"])
                line_map.append((first, len(out_lines), emitted[i]["selector"]))
                i += 1
            emit("}")
        else:
            first = len(out_lines) + 1
            emit(e["text"])
            line_map.append((first, len(out_lines), e["selector"]))
            i += 1
    post_first = len(out_lines) + 1
    emit(unit["postlude"])
    emit("} // verus!")
    emit("fn main() {}")
    with open(out_rs, "w") as f:
        f.write("\n".join(out_lines) + "\n")
    meta = {
        "unit": os.path.basename(os.path.dirname(unit_path)),
        "items": [
            {k: e[k] for k in ("file", "selector", "kind", "sha256", "rules", "external_body")} for e in emitted
        ],
        "line_map": line_map,
        "diffs": {
            e["selector"]: "".join(difflib.unified_diff(
                e["orig"].splitlines(True), (e["text"] + "\n").splitlines(True),
                "repo:" + e["file"], "emitted")) for e in emitted
        },
    }
    with open(out_meta, "w") as f:
        json.dump(meta, f, indent=1)
    return meta


def find_raw_header(sf, header):
    def search(items):
        for it in items:
            if it[0] in ("impl", "trait") and it[1] == header:
                toks = sf.toks[it[2]:it[3]]
                toks = strip_trivia_and_attrs(toks, keep_repr=False)
                return text_of(toks).strip()
            if it[0] == "mod" and it[3] is not None:
                r = search(list(scan_items(sf.toks, it[3] + 1, it[4] - 1)))
                if r:
                    return r
        return None
    r = search(sf.top)
    if r is None:
        raise LostAnchor("header " + header)
    return r


if __name__ == "__main__":
    if len(sys.argv) < 5:
        print("usage: extract.py UNIT.vrs REPO OUT.rs OUT.meta.json")
        sys.exit(2)
    try:
        extract_unit(sys.argv[1], sys.argv[2], sys.argv[3], sys.argv[4])
    except LostAnchor as e:
        print("LOST-ANCHOR: %s" % e)
        sys.exit(3)
